//! gworker: executes requests against the generated types of the current corpus.
//! stdin/file: NDJSON requests {"id":..,"ty":"<registry path>","op":..,...}; stdout: for every
//! request first {"start":id} (flushed), then {"id":id,...response...,"alloc":{...}}.
//! A counting global allocator measures the call: bytes live before/after (leak check, C19),
//! the total and the largest single request (proportionality, C09/C10). A request larger than
//! VERIF_ALLOC_LIMIT is refused (null), which Rust turns into an abort: the parent sees the
//! unfinished {"start":id} and attributes the crash to that request.
use std::alloc::{GlobalAlloc, Layout, System};
use std::io::{BufRead, Write};
use std::sync::atomic::{AtomicBool, AtomicUsize, Ordering::SeqCst};

struct Counting;
static LIVE: AtomicUsize = AtomicUsize::new(0);
static TOTAL: AtomicUsize = AtomicUsize::new(0);
static MAXREQ: AtomicUsize = AtomicUsize::new(0);
static LIMIT: AtomicUsize = AtomicUsize::new(usize::MAX);
static REFUSED: AtomicUsize = AtomicUsize::new(0);
static ON: AtomicBool = AtomicBool::new(false);

unsafe impl GlobalAlloc for Counting {
    unsafe fn alloc(&self, l: Layout) -> *mut u8 {
        if ON.load(SeqCst) {
            let n = l.size();
            if n > LIMIT.load(SeqCst) {
                REFUSED.store(n, SeqCst);
                return std::ptr::null_mut();
            }
            TOTAL.fetch_add(n, SeqCst);
            MAXREQ.fetch_max(n, SeqCst);
        }
        let p = System.alloc(l);
        if !p.is_null() {
            LIVE.fetch_add(l.size(), SeqCst);
        }
        p
    }
    unsafe fn dealloc(&self, p: *mut u8, l: Layout) {
        LIVE.fetch_sub(l.size(), SeqCst);
        System.dealloc(p, l)
    }
    unsafe fn realloc(&self, p: *mut u8, l: Layout, new: usize) -> *mut u8 {
        if ON.load(SeqCst) {
            if new > LIMIT.load(SeqCst) {
                REFUSED.store(new, SeqCst);
                return std::ptr::null_mut();
            }
            if new > l.size() {
                TOTAL.fetch_add(new - l.size(), SeqCst);
            }
            MAXREQ.fetch_max(new, SeqCst);
        }
        let q = System.realloc(p, l, new);
        if !q.is_null() {
            LIVE.fetch_add(new, SeqCst);
            LIVE.fetch_sub(l.size(), SeqCst);
        }
        q
    }
}

#[global_allocator]
static A: Counting = Counting;

fn main() {
    vh::quiet_panics();
    let args: Vec<String> = std::env::args().collect();
    let table: std::collections::HashMap<&'static str, gencases::rt::Ops> = gencases::table().into_iter().collect();
    let input: Box<dyn BufRead> = match args.get(1) {
        Some(p) => Box::new(std::io::BufReader::new(std::fs::File::open(p).expect("open requests"))),
        None => Box::new(std::io::BufReader::new(std::io::stdin())),
    };
    let skip_to: u64 = args.get(2).and_then(|s| s.parse().ok()).unwrap_or(0);
    let stdout = std::io::stdout();
    let mut out = std::io::BufWriter::new(stdout.lock());
    // run on a thread with a generous, fixed stack: deep recursion of generated decoders is an observation
    for line in input.lines() {
        let line = line.unwrap();
        if line.trim().is_empty() {
            continue;
        }
        let req = vh::parse_json(&line);
        let id = req["id"].as_u64().unwrap_or(0);
        if id < skip_to {
            continue;
        }
        writeln!(out, "{{\"start\":{id}}}").unwrap();
        out.flush().unwrap();
        let ty = req["ty"].as_str().unwrap_or("");
        let rt_ops = gencases::rt::Ops { exec: gencases::rt::exec_rt, default: None };
        let Some(ops) = table.get(ty).or(if ty == "@rt" || ty == "@appexc" { Some(&rt_ops) } else { None }) else {
            writeln!(out, "{}", serde_json::json!({"id": id, "ok": false, "err": format!("harness: no such type {ty}"), "tool_error": true})).unwrap();
            continue;
        };
        let is_default = req["op"].as_str() == Some("default");
        let f = if is_default { ops.default } else { Some(ops.exec) };
        let Some(f) = f else {
            writeln!(out, "{}", serde_json::json!({"id": id, "ok": false, "err": "harness: type has no Default", "tool_error": true})).unwrap();
            continue;
        };
        let limit = req["alloc_limit"].as_u64().map(|x| x as usize).unwrap_or(usize::MAX);
        let reps = if req["measure_leak"].as_bool().unwrap_or(false) { 3 } else { 1 };
        let mut deltas: Vec<i64> = vec![];
        let mut resp = serde_json::Value::Null;
        let (mut total, mut maxreq) = (0usize, 0usize);
        for _ in 0..reps {
            let before = LIVE.load(SeqCst);
            TOTAL.store(0, SeqCst);
            MAXREQ.store(0, SeqCst);
            LIMIT.store(limit, SeqCst);
            ON.store(true, SeqCst);
            let r = if reps > 1 {
                // leak measurement: only the outcome matters; everything the call produced is dropped
                // inside the measured window, nothing is allocated by the harness in it
                let r = f(&req);
                let ok = r["ok"].as_bool().unwrap_or(false);
                let panicked = r["panic"].as_bool().unwrap_or(false);
                drop(r);
                let after = LIVE.load(SeqCst);
                ON.store(false, SeqCst);
                deltas.push(after as i64 - before as i64);
                serde_json::json!({"ok": ok, "panic": panicked})
            } else {
                let r = f(&req);
                ON.store(false, SeqCst);
                r
            };
            ON.store(false, SeqCst);
            LIMIT.store(usize::MAX, SeqCst);
            total = TOTAL.load(SeqCst);
            maxreq = MAXREQ.load(SeqCst);
            resp = r;
        }
        resp["id"] = serde_json::json!(id);
        resp["alloc"] = serde_json::json!({"total": total, "max": maxreq, "leak_deltas": deltas});
        writeln!(out, "{}", resp).unwrap();
    }
    out.flush().unwrap();
}
