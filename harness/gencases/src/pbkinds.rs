//! Runtime-only protobuf kinds: hand-written messages that compose `pilota::prost::encoding::*` exactly the way
//! pilota-build's emitted code composes them, but through the functions the generator never selects
//! (`string::*` into `String`, `bytes::*` into `Vec<u8>`, `*::encode_packed`, `btree_map::*`, `group::*`,
//! the wrapper `impl Message for String / Vec<u8> / i64 / ...`).  Their schema is `pbschemas.runtime_kinds()`;
//! cases and verdicts come from the same specification (PbSchema) as for generated messages.
#![allow(clippy::all)]
use std::collections::BTreeMap;

use pilota::prost::bytes::{Buf, BufMut};
use pilota::prost::encoding::{self as e, DecodeContext, WireType};
use pilota::prost::{DecodeError, Message};

type R = Result<(), DecodeError>;

/// message KLeaf { int32 a = 1; string b = 2; }
#[derive(Debug, Default, Clone, PartialEq)]
pub struct KLeaf {
    pub a: i32,
    pub b: String,
}
impl Message for KLeaf {
    fn encoded_len(&self) -> usize {
        e::int32::encoded_len(1, &self.a) + e::string::encoded_len(2, &self.b)
    }
    fn encode_raw<B: BufMut>(&self, buf: &mut B) {
        e::int32::encode(1, &self.a, buf);
        e::string::encode(2, &self.b, buf);
    }
    fn merge_field<B: Buf>(&mut self, tag: u32, wt: WireType, buf: &mut B, ctx: DecodeContext) -> R {
        match tag {
            1 => e::int32::merge(wt, &mut self.a, buf, ctx),
            2 => e::string::merge(wt, &mut self.b, buf, ctx),
            _ => e::skip_field(wt, tag, buf, ctx),
        }
    }
}

/// message KStr { string s = 1; optional string os = 2; repeated string rs = 3; bytes v = 4; optional bytes ov = 5;
///                repeated bytes rv = 16; int32 tail = 17; }
#[derive(Debug, Default, Clone, PartialEq)]
pub struct KStr {
    pub s: String,
    pub os: Option<String>,
    pub rs: Vec<String>,
    pub v: Vec<u8>,
    pub ov: Option<Vec<u8>>,
    pub rv: Vec<Vec<u8>>,
    pub tail: i32,
}
impl Message for KStr {
    fn encoded_len(&self) -> usize {
        e::string::encoded_len(1, &self.s)
            + self.os.as_ref().map_or(0, |v| e::string::encoded_len(2, v))
            + e::string::encoded_len_repeated(3, &self.rs)
            + e::bytes::encoded_len(4, &self.v)
            + self.ov.as_ref().map_or(0, |v| e::bytes::encoded_len(5, v))
            + e::bytes::encoded_len_repeated(16, &self.rv)
            + e::int32::encoded_len(17, &self.tail)
    }
    fn encode_raw<B: BufMut>(&self, buf: &mut B) {
        e::string::encode(1, &self.s, buf);
        if let Some(v) = self.os.as_ref() {
            e::string::encode(2, v, buf);
        }
        e::string::encode_repeated(3, &self.rs, buf);
        e::bytes::encode(4, &self.v, buf);
        if let Some(v) = self.ov.as_ref() {
            e::bytes::encode(5, v, buf);
        }
        e::bytes::encode_repeated(16, &self.rv, buf);
        e::int32::encode(17, &self.tail, buf);
    }
    fn merge_field<B: Buf>(&mut self, tag: u32, wt: WireType, buf: &mut B, ctx: DecodeContext) -> R {
        match tag {
            1 => e::string::merge(wt, &mut self.s, buf, ctx),
            2 => e::string::merge(wt, self.os.get_or_insert_with(Default::default), buf, ctx),
            3 => e::string::merge_repeated(wt, &mut self.rs, buf, ctx),
            4 => e::bytes::merge(wt, &mut self.v, buf, ctx),
            5 => e::bytes::merge(wt, self.ov.get_or_insert_with(Default::default), buf, ctx),
            16 => e::bytes::merge_repeated(wt, &mut self.rv, buf, ctx),
            17 => e::int32::merge(wt, &mut self.tail, buf, ctx),
            _ => e::skip_field(wt, tag, buf, ctx),
        }
    }
}

/// message KPacked { repeated int32 a = 1; repeated sint64 b = 2; repeated fixed32 c = 3; repeated double d = 4;
///                   repeated bool f = 5; repeated uint64 g = 16; repeated sfixed64 h = 17; repeated float i = 18;
///                   repeated sint32 j = 2048; int32 tail = 19; }   (all [packed = true])
#[derive(Debug, Default, Clone, PartialEq)]
pub struct KPacked {
    pub a: Vec<i32>,
    pub b: Vec<i64>,
    pub c: Vec<u32>,
    pub d: Vec<f64>,
    pub f: Vec<bool>,
    pub g: Vec<u64>,
    pub h: Vec<i64>,
    pub i: Vec<f32>,
    pub j: Vec<i32>,
    pub tail: i32,
}
impl Message for KPacked {
    fn encoded_len(&self) -> usize {
        e::int32::encoded_len_packed(1, &self.a)
            + e::sint64::encoded_len_packed(2, &self.b)
            + e::fixed32::encoded_len_packed(3, &self.c)
            + e::double::encoded_len_packed(4, &self.d)
            + e::bool::encoded_len_packed(5, &self.f)
            + e::uint64::encoded_len_packed(16, &self.g)
            + e::sfixed64::encoded_len_packed(17, &self.h)
            + e::float::encoded_len_packed(18, &self.i)
            + e::sint32::encoded_len_packed(2048, &self.j)
            + e::int32::encoded_len(19, &self.tail)
    }
    fn encode_raw<B: BufMut>(&self, buf: &mut B) {
        e::int32::encode_packed(1, &self.a, buf);
        e::sint64::encode_packed(2, &self.b, buf);
        e::fixed32::encode_packed(3, &self.c, buf);
        e::double::encode_packed(4, &self.d, buf);
        e::bool::encode_packed(5, &self.f, buf);
        e::uint64::encode_packed(16, &self.g, buf);
        e::sfixed64::encode_packed(17, &self.h, buf);
        e::float::encode_packed(18, &self.i, buf);
        e::sint32::encode_packed(2048, &self.j, buf);
        e::int32::encode(19, &self.tail, buf);
    }
    fn merge_field<B: Buf>(&mut self, tag: u32, wt: WireType, buf: &mut B, ctx: DecodeContext) -> R {
        match tag {
            1 => e::int32::merge_repeated(wt, &mut self.a, buf, ctx),
            2 => e::sint64::merge_repeated(wt, &mut self.b, buf, ctx),
            3 => e::fixed32::merge_repeated(wt, &mut self.c, buf, ctx),
            4 => e::double::merge_repeated(wt, &mut self.d, buf, ctx),
            5 => e::bool::merge_repeated(wt, &mut self.f, buf, ctx),
            16 => e::uint64::merge_repeated(wt, &mut self.g, buf, ctx),
            17 => e::sfixed64::merge_repeated(wt, &mut self.h, buf, ctx),
            18 => e::float::merge_repeated(wt, &mut self.i, buf, ctx),
            2048 => e::sint32::merge_repeated(wt, &mut self.j, buf, ctx),
            19 => e::int32::merge(wt, &mut self.tail, buf, ctx),
            _ => e::skip_field(wt, tag, buf, ctx),
        }
    }
}

/// message KBtree { map<int32, sint64> a = 1; map<string, string> b = 2; map<uint64, KLeaf> c = 3; map<bool, bytes> d = 16;
///                  map<string, double> z = 17; int32 tail = 18; }
#[derive(Debug, Default, Clone, PartialEq)]
pub struct KBtree {
    pub a: BTreeMap<i32, i64>,
    pub b: BTreeMap<String, String>,
    pub c: BTreeMap<u64, KLeaf>,
    pub d: BTreeMap<bool, Vec<u8>>,
    pub z: BTreeMap<String, f64>,
    pub tail: i32,
}
impl Message for KBtree {
    fn encoded_len(&self) -> usize {
        e::btree_map::encoded_len(e::int32::encoded_len, e::sint64::encoded_len, 1, &self.a)
            + e::btree_map::encoded_len(e::string::encoded_len, e::string::encoded_len, 2, &self.b)
            + e::btree_map::encoded_len(e::uint64::encoded_len, e::message::encoded_len, 3, &self.c)
            + e::btree_map::encoded_len(e::bool::encoded_len, e::bytes::encoded_len, 16, &self.d)
            + e::btree_map::encoded_len(e::string::encoded_len, e::double::encoded_len, 17, &self.z)
            + e::int32::encoded_len(18, &self.tail)
    }
    fn encode_raw<B: BufMut>(&self, buf: &mut B) {
        e::btree_map::encode(e::int32::encode, e::int32::encoded_len, e::sint64::encode, e::sint64::encoded_len, 1, &self.a, buf);
        e::btree_map::encode(e::string::encode, e::string::encoded_len, e::string::encode, e::string::encoded_len, 2, &self.b, buf);
        e::btree_map::encode(e::uint64::encode, e::uint64::encoded_len, e::message::encode, e::message::encoded_len, 3, &self.c, buf);
        e::btree_map::encode(e::bool::encode, e::bool::encoded_len, e::bytes::encode, e::bytes::encoded_len, 16, &self.d, buf);
        e::btree_map::encode(e::string::encode, e::string::encoded_len, e::double::encode, e::double::encoded_len, 17, &self.z, buf);
        e::int32::encode(18, &self.tail, buf);
    }
    fn merge_field<B: Buf>(&mut self, tag: u32, wt: WireType, buf: &mut B, ctx: DecodeContext) -> R {
        match tag {
            1 => e::btree_map::merge(e::int32::merge, e::sint64::merge, &mut self.a, buf, ctx),
            2 => e::btree_map::merge(e::string::merge, e::string::merge, &mut self.b, buf, ctx),
            3 => e::btree_map::merge(e::uint64::merge, e::message::merge, &mut self.c, buf, ctx),
            16 => e::btree_map::merge(e::bool::merge, e::bytes::merge, &mut self.d, buf, ctx),
            17 => e::btree_map::merge(e::string::merge, e::double::merge, &mut self.z, buf, ctx),
            18 => e::int32::merge(wt, &mut self.tail, buf, ctx),
            _ => e::skip_field(wt, tag, buf, ctx),
        }
    }
}

/// message KGroup { optional group G = 1 { KLeaf fields }; repeated group RG = 2 { KLeaf fields }; optional int32 tail = 3;
///                  optional group Deep = 16 { KGroup fields } }        (proto2)
#[derive(Debug, Default, Clone, PartialEq)]
pub struct KGroup {
    pub g: Option<KLeaf>,
    pub rg: Vec<KLeaf>,
    pub tail: Option<i32>,
    pub deep: Option<Box<KGroup>>,
}
impl Message for KGroup {
    fn encoded_len(&self) -> usize {
        self.g.as_ref().map_or(0, |m| e::group::encoded_len(1, m))
            + e::group::encoded_len_repeated(2, &self.rg)
            + self.tail.as_ref().map_or(0, |v| e::int32::encoded_len(3, v))
            + self.deep.as_ref().map_or(0, |m| e::group::encoded_len(16, &**m))
    }
    fn encode_raw<B: BufMut>(&self, buf: &mut B) {
        if let Some(m) = self.g.as_ref() {
            e::group::encode(1, m, buf);
        }
        e::group::encode_repeated(2, &self.rg, buf);
        if let Some(v) = self.tail.as_ref() {
            e::int32::encode(3, v, buf);
        }
        if let Some(m) = self.deep.as_ref() {
            e::group::encode(16, &**m, buf);
        }
    }
    fn merge_field<B: Buf>(&mut self, tag: u32, wt: WireType, buf: &mut B, ctx: DecodeContext) -> R {
        match tag {
            1 => e::group::merge(tag, wt, self.g.get_or_insert_with(Default::default), buf, ctx),
            2 => e::group::merge_repeated(tag, wt, &mut self.rg, buf, ctx),
            3 => e::int32::merge(wt, self.tail.get_or_insert_with(Default::default), buf, ctx),
            16 => e::group::merge(tag, wt, &mut **self.deep.get_or_insert_with(Default::default), buf, ctx),
            _ => e::skip_field(wt, tag, buf, ctx),
        }
    }
}

/// message KWrap { StringValue sv = 1; BytesValue bv = 2; Int64Value iv = 3; BoolValue ov = 4; DoubleValue dv = 5;
///                 UInt32Value uv = 16; repeated StringValue rsv = 17; int32 tail = 18; }
/// with the well-known wrapper messages { T value = 1; } served by `impl Message for String / Vec<u8> / i64 / ...`
#[derive(Debug, Default, Clone, PartialEq)]
pub struct KWrap {
    pub sv: Option<String>,
    pub bv: Option<Vec<u8>>,
    pub iv: Option<i64>,
    pub ov: Option<bool>,
    pub dv: Option<f64>,
    pub uv: Option<u32>,
    pub rsv: Vec<String>,
    pub tail: i32,
}
impl Message for KWrap {
    fn encoded_len(&self) -> usize {
        self.sv.as_ref().map_or(0, |m| e::message::encoded_len(1, m))
            + self.bv.as_ref().map_or(0, |m| e::message::encoded_len(2, m))
            + self.iv.as_ref().map_or(0, |m| e::message::encoded_len(3, m))
            + self.ov.as_ref().map_or(0, |m| e::message::encoded_len(4, m))
            + self.dv.as_ref().map_or(0, |m| e::message::encoded_len(5, m))
            + self.uv.as_ref().map_or(0, |m| e::message::encoded_len(16, m))
            + e::message::encoded_len_repeated(17, &self.rsv)
            + e::int32::encoded_len(18, &self.tail)
    }
    fn encode_raw<B: BufMut>(&self, buf: &mut B) {
        if let Some(m) = self.sv.as_ref() {
            e::message::encode(1, m, buf);
        }
        if let Some(m) = self.bv.as_ref() {
            e::message::encode(2, m, buf);
        }
        if let Some(m) = self.iv.as_ref() {
            e::message::encode(3, m, buf);
        }
        if let Some(m) = self.ov.as_ref() {
            e::message::encode(4, m, buf);
        }
        if let Some(m) = self.dv.as_ref() {
            e::message::encode(5, m, buf);
        }
        if let Some(m) = self.uv.as_ref() {
            e::message::encode(16, m, buf);
        }
        e::message::encode_repeated(17, &self.rsv, buf);
        e::int32::encode(18, &self.tail, buf);
    }
    fn merge_field<B: Buf>(&mut self, tag: u32, wt: WireType, buf: &mut B, ctx: DecodeContext) -> R {
        match tag {
            1 => e::message::merge(wt, self.sv.get_or_insert_with(Default::default), buf, ctx),
            2 => e::message::merge(wt, self.bv.get_or_insert_with(Default::default), buf, ctx),
            3 => e::message::merge(wt, self.iv.get_or_insert_with(Default::default), buf, ctx),
            4 => e::message::merge(wt, self.ov.get_or_insert_with(Default::default), buf, ctx),
            5 => e::message::merge(wt, self.dv.get_or_insert_with(Default::default), buf, ctx),
            16 => e::message::merge(wt, self.uv.get_or_insert_with(Default::default), buf, ctx),
            17 => e::message::merge_repeated(wt, &mut self.rsv, buf, ctx),
            18 => e::int32::merge(wt, &mut self.tail, buf, ctx),
            _ => e::skip_field(wt, tag, buf, ctx),
        }
    }
}

pub fn rows() -> Vec<(&'static str, crate::rt::Ops)> {
    use crate::pbrt::ops;
    vec![
        ("@pbk::KLeaf", ops::<KLeaf>()),
        ("@pbk::KStr", ops::<KStr>()),
        ("@pbk::KPacked", ops::<KPacked>()),
        ("@pbk::KBtree", ops::<KBtree>()),
        ("@pbk::KGroup", ops::<KGroup>()),
        ("@pbk::KWrap", ops::<KWrap>()),
        // the well-known wrapper messages themselves (prost/types.rs)
        ("@pbk::StringValue", ops::<String>()),
        ("@pbk::BytesValue", ops::<Vec<u8>>()),
        ("@pbk::Int64Value", ops::<i64>()),
        ("@pbk::BoolValue", ops::<bool>()),
        ("@pbk::DoubleValue", ops::<f64>()),
        ("@pbk::UInt32Value", ops::<u32>()),
        ("@pbk::UInt64Value", ops::<u64>()),
        ("@pbk::Int32Value", ops::<i32>()),
        ("@pbk::FloatValue", ops::<f32>()),
        ("@pbk::BytesBValue", ops::<::bytes::Bytes>()),
        ("@pbk::Empty", ops::<()>()),
        // the same wrappers under names the value generator fills with negative zero
        ("@pbk::NzDoubleValue", ops::<f64>()),
        ("@pbk::NzFloatValue", ops::<f32>()),
    ]
}
