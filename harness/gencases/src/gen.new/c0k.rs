pub mod c0k {
    #![allow(warnings, clippy::all)]

    pub mod c0 {
        #[derive(PartialOrd, Hash, Eq, Ord, Debug, Default, Clone, PartialEq, Copy)]
        #[repr(transparent)]
        pub struct E1(i32);

        impl E1 {
            pub const A: Self = Self(1);
            pub const B: Self = Self(5);
            pub const C: Self = Self(300);

            pub fn inner(&self) -> i32 {
                self.0
            }

            pub fn to_string(&self) -> ::std::string::String {
                match self {
                    Self(1) => ::std::string::String::from("A"),
                    Self(5) => ::std::string::String::from("B"),
                    Self(300) => ::std::string::String::from("C"),
                    Self(val) => val.to_string(),
                }
            }
        }

        impl ::std::convert::From<i32> for E1 {
            fn from(value: i32) -> Self {
                Self(value)
            }
        }

        impl ::std::convert::From<E1> for i32 {
            fn from(value: E1) -> i32 {
                value.0
            }
        }

        impl ::pilota::thrift::Message for E1 {
            fn encode<T: ::pilota::thrift::TOutputProtocol>(
                &self,
                __protocol: &mut T,
            ) -> ::std::result::Result<(), ::pilota::thrift::ThriftException> {
                #[allow(unused_imports)]
                use ::pilota::thrift::TOutputProtocolExt;
                __protocol.write_i32(self.inner())?;
                ::std::result::Result::Ok(())
            }

            fn decode<T: ::pilota::thrift::TInputProtocol>(
                __protocol: &mut T,
            ) -> ::std::result::Result<Self, ::pilota::thrift::ThriftException> {
                #[allow(unused_imports)]
                use ::pilota::{thrift::TLengthProtocolExt, Buf};
                let value = __protocol.read_i32()?;
                ::std::result::Result::Ok(::std::convert::TryFrom::try_from(value).map_err(
                    |err| {
                        ::pilota::thrift::new_protocol_exception(
                            ::pilota::thrift::ProtocolExceptionKind::InvalidData,
                            format!("invalid enum value for E1, value: {}", value),
                        )
                    },
                )?)
            }

            fn decode_async<'a, T: ::pilota::thrift::TAsyncInputProtocol>(
                __protocol: &'a mut T,
            ) -> ::std::pin::Pin<
                ::std::boxed::Box<
                    dyn ::std::future::Future<
                            Output = ::std::result::Result<Self, ::pilota::thrift::ThriftException>,
                        > + Send
                        + 'a,
                >,
            > {
                ::std::boxed::Box::pin(async move {
                    let value = __protocol.read_i32().await?;
                    ::std::result::Result::Ok(::std::convert::TryFrom::try_from(value).map_err(
                        |err| {
                            ::pilota::thrift::new_protocol_exception(
                                ::pilota::thrift::ProtocolExceptionKind::InvalidData,
                                format!("invalid enum value for E1, value: {}", value),
                            )
                        },
                    )?)
                })
            }

            fn size<T: ::pilota::thrift::TLengthProtocol>(&self, __protocol: &mut T) -> usize {
                #[allow(unused_imports)]
                use ::pilota::thrift::TLengthProtocolExt;
                __protocol.i32_len(self.inner())
            }
        }
        impl ::std::default::Default for Svc0MbResultRecv {
            fn default() -> Self {
                Svc0MbResultRecv::Ok(::std::default::Default::default())
            }
        }
        #[derive(PartialOrd, Hash, Eq, Ord, Debug, Clone, PartialEq)]
        pub enum Svc0MbResultRecv {
            Ok(()),
        }

        impl ::pilota::thrift::Message for Svc0MbResultRecv {
            fn encode<T: ::pilota::thrift::TOutputProtocol>(
                &self,
                __protocol: &mut T,
            ) -> ::std::result::Result<(), ::pilota::thrift::ThriftException> {
                #[allow(unused_imports)]
                use ::pilota::thrift::TOutputProtocolExt;
                __protocol.write_struct_begin(&::pilota::thrift::TStructIdentifier {
                    name: "Svc0MbResultRecv",
                })?;
                match self {
                    Svc0MbResultRecv::Ok(value) => {}
                }
                __protocol.write_field_stop()?;
                __protocol.write_struct_end()?;
                ::std::result::Result::Ok(())
            }

            fn decode<T: ::pilota::thrift::TInputProtocol>(
                __protocol: &mut T,
            ) -> ::std::result::Result<Self, ::pilota::thrift::ThriftException> {
                #[allow(unused_imports)]
                use ::pilota::{thrift::TLengthProtocolExt, Buf};
                let mut ret = None;
                __protocol.read_struct_begin()?;
                loop {
                    let field_ident = __protocol.read_field_begin()?;
                    if field_ident.field_type == ::pilota::thrift::TType::Stop {
                        __protocol.field_stop_len();
                        break;
                    } else {
                        __protocol.field_begin_len(field_ident.field_type, field_ident.id);
                    }
                    match field_ident.id {
                        _ => {
                            __protocol.skip(field_ident.field_type)?;
                        }
                    }
                }
                __protocol.read_field_end()?;
                __protocol.read_struct_end()?;
                if let Some(ret) = ret {
                    ::std::result::Result::Ok(ret)
                } else {
                    ::std::result::Result::Ok(Svc0MbResultRecv::Ok(()))
                }
            }

            fn decode_async<'a, T: ::pilota::thrift::TAsyncInputProtocol>(
                __protocol: &'a mut T,
            ) -> ::std::pin::Pin<
                ::std::boxed::Box<
                    dyn ::std::future::Future<
                            Output = ::std::result::Result<Self, ::pilota::thrift::ThriftException>,
                        > + Send
                        + 'a,
                >,
            > {
                ::std::boxed::Box::pin(async move {
                    let mut ret = None;
                    __protocol.read_struct_begin().await?;
                    loop {
                        let field_ident = __protocol.read_field_begin().await?;
                        if field_ident.field_type == ::pilota::thrift::TType::Stop {
                            break;
                        } else {
                        }
                        match field_ident.id {
                            _ => {
                                __protocol.skip(field_ident.field_type).await?;
                            }
                        }
                    }
                    __protocol.read_field_end().await?;
                    __protocol.read_struct_end().await?;
                    if let Some(ret) = ret {
                        ::std::result::Result::Ok(ret)
                    } else {
                        ::std::result::Result::Ok(Svc0MbResultRecv::Ok(()))
                    }
                })
            }

            fn size<T: ::pilota::thrift::TLengthProtocol>(&self, __protocol: &mut T) -> usize {
                #[allow(unused_imports)]
                use ::pilota::thrift::TLengthProtocolExt;
                __protocol.struct_begin_len(&::pilota::thrift::TStructIdentifier {
                    name: "Svc0MbResultRecv",
                }) + match self {
                    Svc0MbResultRecv::Ok(value) => 0,
                } + __protocol.field_stop_len()
                    + __protocol.struct_end_len()
            }
        }
        #[derive(Debug, Default, Clone, PartialEq)]
        pub struct Outer0 {
            pub u: ::std::option::Option<Un0>,

            pub s0: S0x0,

            pub s1: ::std::option::Option<S0x1>,

            pub s2: ::std::option::Option<S0x2>,

            pub many: ::std::option::Option<::std::vec::Vec<S0x0>>,

            pub named: ::std::option::Option<::pilota::AHashMap<::pilota::FastStr, S0x15>>,

            pub tail: ::std::option::Option<bool>,
            pub _unknown_fields: ::pilota::LinkedBytes,
        }
        impl ::pilota::thrift::Message for Outer0 {
            fn encode<T: ::pilota::thrift::TOutputProtocol>(
                &self,
                __protocol: &mut T,
            ) -> ::std::result::Result<(), ::pilota::thrift::ThriftException> {
                #[allow(unused_imports)]
                use ::pilota::thrift::TOutputProtocolExt;
                let struct_ident = ::pilota::thrift::TStructIdentifier { name: "Outer0" };

                __protocol.write_struct_begin(&struct_ident)?;
                if let Some(value) = self.u.as_ref() {
                    __protocol.write_struct_field(1, value, ::pilota::thrift::TType::Struct)?;
                }
                __protocol.write_struct_field(2, &self.s0, ::pilota::thrift::TType::Struct)?;
                if let Some(value) = self.s1.as_ref() {
                    __protocol.write_struct_field(3, value, ::pilota::thrift::TType::Struct)?;
                }
                if let Some(value) = self.s2.as_ref() {
                    __protocol.write_struct_field(4, value, ::pilota::thrift::TType::Struct)?;
                }
                if let Some(value) = self.many.as_ref() {
                    __protocol.write_list_field(
                        9,
                        ::pilota::thrift::TType::Struct,
                        &value,
                        |__protocol, val| {
                            __protocol.write_struct(val)?;
                            ::std::result::Result::Ok(())
                        },
                    )?;
                }
                if let Some(value) = self.named.as_ref() {
                    __protocol.write_map_field(
                        10,
                        ::pilota::thrift::TType::Binary,
                        ::pilota::thrift::TType::Struct,
                        &value,
                        |__protocol, key| {
                            __protocol.write_faststr((key).clone())?;
                            ::std::result::Result::Ok(())
                        },
                        |__protocol, val| {
                            __protocol.write_struct(val)?;
                            ::std::result::Result::Ok(())
                        },
                    )?;
                }
                if let Some(value) = self.tail.as_ref() {
                    __protocol.write_bool_field(11, *value)?;
                }
                for bytes in self._unknown_fields.list.iter() {
                    __protocol.write_bytes_without_len(bytes.clone());
                }
                __protocol.write_field_stop()?;
                __protocol.write_struct_end()?;
                ::std::result::Result::Ok(())
            }

            fn decode<T: ::pilota::thrift::TInputProtocol>(
                __protocol: &mut T,
            ) -> ::std::result::Result<Self, ::pilota::thrift::ThriftException> {
                #[allow(unused_imports)]
                use ::pilota::{thrift::TLengthProtocolExt, Buf};

                let mut __pilota_fields_num = 0;
                let mut var_1 = None;
                __pilota_fields_num += 1;
                let mut var_2 = None;
                __pilota_fields_num += 1;
                let mut var_3 = None;
                __pilota_fields_num += 1;
                let mut var_4 = None;
                __pilota_fields_num += 1;
                let mut var_9 = None;
                __pilota_fields_num += 1;
                let mut var_10 = None;
                __pilota_fields_num += 1;
                let mut var_11 = None;
                __pilota_fields_num += 1;
                let mut _unknown_fields = ::pilota::LinkedBytes::new();

                let mut __pilota_decoding_field_id = None;

                __protocol.read_struct_begin()?;
                if let ::std::result::Result::Err(mut err) = (|| {
                    loop {
                        if __pilota_fields_num == 0 {
                            let __pilota_remaining = __protocol.buf().remaining();
                            _unknown_fields
                                .push_back(__protocol.get_bytes(None, __pilota_remaining - 2)?);
                            break;
                        }
                        let mut __pilota_offset = 0;
                        let __pilota_begin_ptr = __protocol.buf().chunk().as_ptr();
                        let field_ident = __protocol.read_field_begin()?;
                        if field_ident.field_type == ::pilota::thrift::TType::Stop {
                            __pilota_offset += __protocol.field_stop_len();
                            break;
                        } else {
                            __pilota_offset +=
                                __protocol.field_begin_len(field_ident.field_type, field_ident.id);
                        }
                        __pilota_decoding_field_id = field_ident.id;
                        match field_ident.id {
                            Some(1)
                                if field_ident.field_type == ::pilota::thrift::TType::Struct =>
                            {
                                var_1 = Some(::pilota::thrift::Message::decode(__protocol)?);
                                __pilota_fields_num -= 1;
                            }
                            Some(2)
                                if field_ident.field_type == ::pilota::thrift::TType::Struct =>
                            {
                                var_2 = Some(::pilota::thrift::Message::decode(__protocol)?);
                                __pilota_fields_num -= 1;
                            }
                            Some(3)
                                if field_ident.field_type == ::pilota::thrift::TType::Struct =>
                            {
                                var_3 = Some(::pilota::thrift::Message::decode(__protocol)?);
                                __pilota_fields_num -= 1;
                            }
                            Some(4)
                                if field_ident.field_type == ::pilota::thrift::TType::Struct =>
                            {
                                var_4 = Some(::pilota::thrift::Message::decode(__protocol)?);
                                __pilota_fields_num -= 1;
                            }
                            Some(9) if field_ident.field_type == ::pilota::thrift::TType::List => {
                                var_9 = Some(unsafe {
                                    let list_ident = __protocol.read_list_begin()?;
                                    let mut val: ::std::vec::Vec<S0x0> =
                                        ::std::vec::Vec::with_capacity(list_ident.size);
                                    for i in 0..list_ident.size {
                                        val.as_mut_ptr()
                                            .offset(i as isize)
                                            .write(::pilota::thrift::Message::decode(__protocol)?);
                                    }
                                    val.set_len(list_ident.size);
                                    __protocol.read_list_end()?;
                                    val
                                });
                                __pilota_fields_num -= 1;
                            }
                            Some(10) if field_ident.field_type == ::pilota::thrift::TType::Map => {
                                var_10 = Some({
                                    let map_ident = __protocol.read_map_begin()?;
                                    let mut val = ::pilota::AHashMap::with_capacity(map_ident.size);
                                    for _ in 0..map_ident.size {
                                        val.insert(
                                            __protocol.read_faststr()?,
                                            ::pilota::thrift::Message::decode(__protocol)?,
                                        );
                                    }
                                    __protocol.read_map_end()?;
                                    val
                                });
                                __pilota_fields_num -= 1;
                            }
                            Some(11) if field_ident.field_type == ::pilota::thrift::TType::Bool => {
                                var_11 = Some(__protocol.read_bool()?);
                                __pilota_fields_num -= 1;
                            }
                            _ => {
                                __pilota_offset += __protocol.skip(field_ident.field_type)?;
                                _unknown_fields.push_back(
                                    __protocol
                                        .get_bytes(Some(__pilota_begin_ptr), __pilota_offset)?,
                                );
                            }
                        }

                        __protocol.read_field_end()?;
                        __pilota_offset += __protocol.field_end_len();
                    }
                    ::std::result::Result::Ok::<_, ::pilota::thrift::ThriftException>(())
                })() {
                    if let Some(field_id) = __pilota_decoding_field_id {
                        err.prepend_msg(&format!(
                            "decode struct `Outer0` field(#{}) failed, caused by: ",
                            field_id
                        ));
                    }
                    return ::std::result::Result::Err(err);
                };
                __protocol.read_struct_end()?;

                let Some(var_2) = var_2 else {
                    return ::std::result::Result::Err(::pilota::thrift::new_protocol_exception(
                        ::pilota::thrift::ProtocolExceptionKind::InvalidData,
                        "field s0 is required".to_string(),
                    ));
                };

                let data = Self {
                    u: var_1,
                    s0: var_2,
                    s1: var_3,
                    s2: var_4,
                    many: var_9,
                    named: var_10,
                    tail: var_11,
                    _unknown_fields,
                };
                ::std::result::Result::Ok(data)
            }

            fn decode_async<'a, T: ::pilota::thrift::TAsyncInputProtocol>(
                __protocol: &'a mut T,
            ) -> ::std::pin::Pin<
                ::std::boxed::Box<
                    dyn ::std::future::Future<
                            Output = ::std::result::Result<Self, ::pilota::thrift::ThriftException>,
                        > + Send
                        + 'a,
                >,
            > {
                ::std::boxed::Box::pin(async move {
                    let mut var_1 = None;
                    let mut var_2 = None;
                    let mut var_3 = None;
                    let mut var_4 = None;
                    let mut var_9 = None;
                    let mut var_10 = None;
                    let mut var_11 = None;

                    let mut __pilota_decoding_field_id = None;

                    __protocol.read_struct_begin().await?;
                    if let ::std::result::Result::Err(mut err) = async {
                        loop {
                            let field_ident = __protocol.read_field_begin().await?;
                            if field_ident.field_type == ::pilota::thrift::TType::Stop {
                                break;
                            } else {
                            }
                            __pilota_decoding_field_id = field_ident.id;
                            match field_ident.id {
                                Some(1)
                                    if field_ident.field_type
                                        == ::pilota::thrift::TType::Struct =>
                                {
                                    var_1 = Some(
                                        <Un0 as ::pilota::thrift::Message>::decode_async(
                                            __protocol,
                                        )
                                        .await?,
                                    );
                                }
                                Some(2)
                                    if field_ident.field_type
                                        == ::pilota::thrift::TType::Struct =>
                                {
                                    var_2 = Some(
                                        <S0x0 as ::pilota::thrift::Message>::decode_async(
                                            __protocol,
                                        )
                                        .await?,
                                    );
                                }
                                Some(3)
                                    if field_ident.field_type
                                        == ::pilota::thrift::TType::Struct =>
                                {
                                    var_3 = Some(
                                        <S0x1 as ::pilota::thrift::Message>::decode_async(
                                            __protocol,
                                        )
                                        .await?,
                                    );
                                }
                                Some(4)
                                    if field_ident.field_type
                                        == ::pilota::thrift::TType::Struct =>
                                {
                                    var_4 = Some(
                                        <S0x2 as ::pilota::thrift::Message>::decode_async(
                                            __protocol,
                                        )
                                        .await?,
                                    );
                                }
                                Some(9)
                                    if field_ident.field_type == ::pilota::thrift::TType::List =>
                                {
                                    var_9 = Some({
                                        let list_ident = __protocol.read_list_begin().await?;
                                        let mut val =
                                            ::std::vec::Vec::with_capacity(list_ident.size);
                                        for _ in 0..list_ident.size {
                                            val.push(
                                                <S0x0 as ::pilota::thrift::Message>::decode_async(
                                                    __protocol,
                                                )
                                                .await?,
                                            );
                                        }
                                        __protocol.read_list_end().await?;
                                        val
                                    });
                                }
                                Some(10)
                                    if field_ident.field_type == ::pilota::thrift::TType::Map =>
                                {
                                    var_10 = Some({
                                        let map_ident = __protocol.read_map_begin().await?;
                                        let mut val =
                                            ::pilota::AHashMap::with_capacity(map_ident.size);
                                        for _ in 0..map_ident.size {
                                            val.insert(
                                                __protocol.read_faststr().await?,
                                                <S0x15 as ::pilota::thrift::Message>::decode_async(
                                                    __protocol,
                                                )
                                                .await?,
                                            );
                                        }
                                        __protocol.read_map_end().await?;
                                        val
                                    });
                                }
                                Some(11)
                                    if field_ident.field_type == ::pilota::thrift::TType::Bool =>
                                {
                                    var_11 = Some(__protocol.read_bool().await?);
                                }
                                _ => {
                                    __protocol.skip(field_ident.field_type).await?;
                                }
                            }

                            __protocol.read_field_end().await?;
                        }
                        ::std::result::Result::Ok::<_, ::pilota::thrift::ThriftException>(())
                    }
                    .await
                    {
                        if let Some(field_id) = __pilota_decoding_field_id {
                            err.prepend_msg(&format!(
                                "decode struct `Outer0` field(#{}) failed, caused by: ",
                                field_id
                            ));
                        }
                        return ::std::result::Result::Err(err);
                    };
                    __protocol.read_struct_end().await?;

                    let Some(var_2) = var_2 else {
                        return ::std::result::Result::Err(
                            ::pilota::thrift::new_protocol_exception(
                                ::pilota::thrift::ProtocolExceptionKind::InvalidData,
                                "field s0 is required".to_string(),
                            ),
                        );
                    };

                    let data = Self {
                        u: var_1,
                        s0: var_2,
                        s1: var_3,
                        s2: var_4,
                        many: var_9,
                        named: var_10,
                        tail: var_11,
                        _unknown_fields: ::pilota::LinkedBytes::new(),
                    };
                    ::std::result::Result::Ok(data)
                })
            }

            fn size<T: ::pilota::thrift::TLengthProtocol>(&self, __protocol: &mut T) -> usize {
                #[allow(unused_imports)]
                use ::pilota::thrift::TLengthProtocolExt;
                __protocol.struct_begin_len(&::pilota::thrift::TStructIdentifier { name: "Outer0" })
                    + self
                        .u
                        .as_ref()
                        .map_or(0, |value| __protocol.struct_field_len(Some(1), value))
                    + __protocol.struct_field_len(Some(2), &self.s0)
                    + self
                        .s1
                        .as_ref()
                        .map_or(0, |value| __protocol.struct_field_len(Some(3), value))
                    + self
                        .s2
                        .as_ref()
                        .map_or(0, |value| __protocol.struct_field_len(Some(4), value))
                    + self.many.as_ref().map_or(0, |value| {
                        __protocol.list_field_len(
                            Some(9),
                            ::pilota::thrift::TType::Struct,
                            value,
                            |__protocol, el| __protocol.struct_len(el),
                        )
                    })
                    + self.named.as_ref().map_or(0, |value| {
                        __protocol.map_field_len(
                            Some(10),
                            ::pilota::thrift::TType::Binary,
                            ::pilota::thrift::TType::Struct,
                            value,
                            |__protocol, key| __protocol.faststr_len(key),
                            |__protocol, val| __protocol.struct_len(val),
                        )
                    })
                    + self
                        .tail
                        .as_ref()
                        .map_or(0, |value| __protocol.bool_field_len(Some(11), *value))
                    + self._unknown_fields.size()
                    + __protocol.field_stop_len()
                    + __protocol.struct_end_len()
            }
        }
        impl ::std::default::Default for S0x9 {
            fn default() -> Self {
                S0x9 {
                    f1: Some(E1::B),
                    f2: ::std::default::Default::default(),
                    f3: ::std::default::Default::default(),
                    _unknown_fields: ::pilota::LinkedBytes::new(),
                }
            }
        }
        #[derive(PartialOrd, Hash, Eq, Ord, Debug, Clone, PartialEq)]
        pub struct S0x9 {
            pub f1: ::std::option::Option<E1>,

            pub f2: i64,

            pub f3: ::std::option::Option<::std::collections::BTreeSet<i32>>,
            pub _unknown_fields: ::pilota::LinkedBytes,
        }
        impl ::pilota::thrift::Message for S0x9 {
            fn encode<T: ::pilota::thrift::TOutputProtocol>(
                &self,
                __protocol: &mut T,
            ) -> ::std::result::Result<(), ::pilota::thrift::ThriftException> {
                #[allow(unused_imports)]
                use ::pilota::thrift::TOutputProtocolExt;
                let struct_ident = ::pilota::thrift::TStructIdentifier { name: "S0x9" };

                __protocol.write_struct_begin(&struct_ident)?;
                if let Some(value) = self.f1.as_ref() {
                    __protocol.write_i32_field(1, (value).inner())?;
                }
                __protocol.write_i64_field(2, *&self.f2)?;
                if let Some(value) = self.f3.as_ref() {
                    __protocol.write_btree_set_field(
                        3,
                        ::pilota::thrift::TType::I32,
                        &value,
                        |__protocol, val| {
                            __protocol.write_i32(*val)?;
                            ::std::result::Result::Ok(())
                        },
                    )?;
                }
                for bytes in self._unknown_fields.list.iter() {
                    __protocol.write_bytes_without_len(bytes.clone());
                }
                __protocol.write_field_stop()?;
                __protocol.write_struct_end()?;
                ::std::result::Result::Ok(())
            }

            fn decode<T: ::pilota::thrift::TInputProtocol>(
                __protocol: &mut T,
            ) -> ::std::result::Result<Self, ::pilota::thrift::ThriftException> {
                #[allow(unused_imports)]
                use ::pilota::{thrift::TLengthProtocolExt, Buf};

                let mut var_1 = Some(E1::B);
                let mut var_2 = None;
                let mut var_3 = None;
                let mut _unknown_fields = ::pilota::LinkedBytes::new();

                let mut __pilota_decoding_field_id = None;

                __protocol.read_struct_begin()?;
                if let ::std::result::Result::Err(mut err) = (|| {
                    loop {
                        let mut __pilota_offset = 0;
                        let __pilota_begin_ptr = __protocol.buf().chunk().as_ptr();
                        let field_ident = __protocol.read_field_begin()?;
                        if field_ident.field_type == ::pilota::thrift::TType::Stop {
                            __pilota_offset += __protocol.field_stop_len();
                            break;
                        } else {
                            __pilota_offset +=
                                __protocol.field_begin_len(field_ident.field_type, field_ident.id);
                        }
                        __pilota_decoding_field_id = field_ident.id;
                        match field_ident.id {
                            Some(1) if field_ident.field_type == ::pilota::thrift::TType::I32 => {
                                var_1 = Some(::pilota::thrift::Message::decode(__protocol)?);
                            }
                            Some(2) if field_ident.field_type == ::pilota::thrift::TType::I64 => {
                                var_2 = Some(__protocol.read_i64()?);
                            }
                            Some(3) if field_ident.field_type == ::pilota::thrift::TType::Set => {
                                var_3 = Some({
                                    let list_ident = __protocol.read_set_begin()?;
                                    let mut val = ::std::collections::BTreeSet::new();
                                    for _ in 0..list_ident.size {
                                        val.insert(__protocol.read_i32()?);
                                    }
                                    __protocol.read_set_end()?;
                                    val
                                });
                            }
                            _ => {
                                __pilota_offset += __protocol.skip(field_ident.field_type)?;
                                _unknown_fields.push_back(
                                    __protocol
                                        .get_bytes(Some(__pilota_begin_ptr), __pilota_offset)?,
                                );
                            }
                        }

                        __protocol.read_field_end()?;
                        __pilota_offset += __protocol.field_end_len();
                    }
                    ::std::result::Result::Ok::<_, ::pilota::thrift::ThriftException>(())
                })() {
                    if let Some(field_id) = __pilota_decoding_field_id {
                        err.prepend_msg(&format!(
                            "decode struct `S0x9` field(#{}) failed, caused by: ",
                            field_id
                        ));
                    }
                    return ::std::result::Result::Err(err);
                };
                __protocol.read_struct_end()?;

                let Some(var_2) = var_2 else {
                    return ::std::result::Result::Err(::pilota::thrift::new_protocol_exception(
                        ::pilota::thrift::ProtocolExceptionKind::InvalidData,
                        "field f2 is required".to_string(),
                    ));
                };

                let data = Self {
                    f1: var_1,
                    f2: var_2,
                    f3: var_3,
                    _unknown_fields,
                };
                ::std::result::Result::Ok(data)
            }

            fn decode_async<'a, T: ::pilota::thrift::TAsyncInputProtocol>(
                __protocol: &'a mut T,
            ) -> ::std::pin::Pin<
                ::std::boxed::Box<
                    dyn ::std::future::Future<
                            Output = ::std::result::Result<Self, ::pilota::thrift::ThriftException>,
                        > + Send
                        + 'a,
                >,
            > {
                ::std::boxed::Box::pin(async move {
                    let mut var_1 = Some(E1::B);
                    let mut var_2 = None;
                    let mut var_3 = None;

                    let mut __pilota_decoding_field_id = None;

                    __protocol.read_struct_begin().await?;
                    if let ::std::result::Result::Err(mut err) = async {
                        loop {
                            let field_ident = __protocol.read_field_begin().await?;
                            if field_ident.field_type == ::pilota::thrift::TType::Stop {
                                break;
                            } else {
                            }
                            __pilota_decoding_field_id = field_ident.id;
                            match field_ident.id {
                                Some(1)
                                    if field_ident.field_type == ::pilota::thrift::TType::I32 =>
                                {
                                    var_1 = Some(
                                        <E1 as ::pilota::thrift::Message>::decode_async(__protocol)
                                            .await?,
                                    );
                                }
                                Some(2)
                                    if field_ident.field_type == ::pilota::thrift::TType::I64 =>
                                {
                                    var_2 = Some(__protocol.read_i64().await?);
                                }
                                Some(3)
                                    if field_ident.field_type == ::pilota::thrift::TType::Set =>
                                {
                                    var_3 = Some({
                                        let list_ident = __protocol.read_set_begin().await?;
                                        let mut val = ::std::collections::BTreeSet::new();
                                        for _ in 0..list_ident.size {
                                            val.insert(__protocol.read_i32().await?);
                                        }
                                        __protocol.read_set_end().await?;
                                        val
                                    });
                                }
                                _ => {
                                    __protocol.skip(field_ident.field_type).await?;
                                }
                            }

                            __protocol.read_field_end().await?;
                        }
                        ::std::result::Result::Ok::<_, ::pilota::thrift::ThriftException>(())
                    }
                    .await
                    {
                        if let Some(field_id) = __pilota_decoding_field_id {
                            err.prepend_msg(&format!(
                                "decode struct `S0x9` field(#{}) failed, caused by: ",
                                field_id
                            ));
                        }
                        return ::std::result::Result::Err(err);
                    };
                    __protocol.read_struct_end().await?;

                    let Some(var_2) = var_2 else {
                        return ::std::result::Result::Err(
                            ::pilota::thrift::new_protocol_exception(
                                ::pilota::thrift::ProtocolExceptionKind::InvalidData,
                                "field f2 is required".to_string(),
                            ),
                        );
                    };

                    let data = Self {
                        f1: var_1,
                        f2: var_2,
                        f3: var_3,
                        _unknown_fields: ::pilota::LinkedBytes::new(),
                    };
                    ::std::result::Result::Ok(data)
                })
            }

            fn size<T: ::pilota::thrift::TLengthProtocol>(&self, __protocol: &mut T) -> usize {
                #[allow(unused_imports)]
                use ::pilota::thrift::TLengthProtocolExt;
                __protocol.struct_begin_len(&::pilota::thrift::TStructIdentifier { name: "S0x9" })
                    + self.f1.as_ref().map_or(0, |value| {
                        __protocol.i32_field_len(Some(1), (value).inner())
                    })
                    + __protocol.i64_field_len(Some(2), *&self.f2)
                    + self.f3.as_ref().map_or(0, |value| {
                        __protocol.btree_set_field_len(
                            Some(3),
                            ::pilota::thrift::TType::I32,
                            value,
                            |__protocol, el| __protocol.i32_len(*el),
                        )
                    })
                    + self._unknown_fields.size()
                    + __protocol.field_stop_len()
                    + __protocol.struct_end_len()
            }
        }
        #[derive(Debug, Default, Clone, PartialEq)]
        pub struct Rec1 {
            pub v: i8,

            pub next: ::std::option::Option<::std::boxed::Box<Rec1>>,

            pub kids: ::std::option::Option<::std::vec::Vec<Rec1>>,

            pub named: ::std::option::Option<::pilota::AHashMap<::pilota::FastStr, Rec1>>,
            pub _unknown_fields: ::pilota::LinkedBytes,
        }
        impl ::pilota::thrift::Message for Rec1 {
            fn encode<T: ::pilota::thrift::TOutputProtocol>(
                &self,
                __protocol: &mut T,
            ) -> ::std::result::Result<(), ::pilota::thrift::ThriftException> {
                #[allow(unused_imports)]
                use ::pilota::thrift::TOutputProtocolExt;
                let struct_ident = ::pilota::thrift::TStructIdentifier { name: "Rec1" };

                __protocol.write_struct_begin(&struct_ident)?;
                __protocol.write_i8_field(1, *&self.v)?;
                if let Some(value) = self.next.as_ref() {
                    __protocol.write_struct_field(2, value, ::pilota::thrift::TType::Struct)?;
                }
                if let Some(value) = self.kids.as_ref() {
                    __protocol.write_list_field(
                        3,
                        ::pilota::thrift::TType::Struct,
                        &value,
                        |__protocol, val| {
                            __protocol.write_struct(val)?;
                            ::std::result::Result::Ok(())
                        },
                    )?;
                }
                if let Some(value) = self.named.as_ref() {
                    __protocol.write_map_field(
                        4,
                        ::pilota::thrift::TType::Binary,
                        ::pilota::thrift::TType::Struct,
                        &value,
                        |__protocol, key| {
                            __protocol.write_faststr((key).clone())?;
                            ::std::result::Result::Ok(())
                        },
                        |__protocol, val| {
                            __protocol.write_struct(val)?;
                            ::std::result::Result::Ok(())
                        },
                    )?;
                }
                for bytes in self._unknown_fields.list.iter() {
                    __protocol.write_bytes_without_len(bytes.clone());
                }
                __protocol.write_field_stop()?;
                __protocol.write_struct_end()?;
                ::std::result::Result::Ok(())
            }

            fn decode<T: ::pilota::thrift::TInputProtocol>(
                __protocol: &mut T,
            ) -> ::std::result::Result<Self, ::pilota::thrift::ThriftException> {
                #[allow(unused_imports)]
                use ::pilota::{thrift::TLengthProtocolExt, Buf};

                let mut var_1 = None;
                let mut var_2 = None;
                let mut var_3 = None;
                let mut var_4 = None;
                let mut _unknown_fields = ::pilota::LinkedBytes::new();

                let mut __pilota_decoding_field_id = None;

                __protocol.read_struct_begin()?;
                if let ::std::result::Result::Err(mut err) = (|| {
                    loop {
                        let mut __pilota_offset = 0;
                        let __pilota_begin_ptr = __protocol.buf().chunk().as_ptr();
                        let field_ident = __protocol.read_field_begin()?;
                        if field_ident.field_type == ::pilota::thrift::TType::Stop {
                            __pilota_offset += __protocol.field_stop_len();
                            break;
                        } else {
                            __pilota_offset +=
                                __protocol.field_begin_len(field_ident.field_type, field_ident.id);
                        }
                        __pilota_decoding_field_id = field_ident.id;
                        match field_ident.id {
                            Some(1) if field_ident.field_type == ::pilota::thrift::TType::I8 => {
                                var_1 = Some(__protocol.read_i8()?);
                            }
                            Some(2)
                                if field_ident.field_type == ::pilota::thrift::TType::Struct =>
                            {
                                var_2 = Some(::std::boxed::Box::new(
                                    ::pilota::thrift::Message::decode(__protocol)?,
                                ));
                            }
                            Some(3) if field_ident.field_type == ::pilota::thrift::TType::List => {
                                var_3 = Some(unsafe {
                                    let list_ident = __protocol.read_list_begin()?;
                                    let mut val: ::std::vec::Vec<Rec1> =
                                        ::std::vec::Vec::with_capacity(list_ident.size);
                                    for i in 0..list_ident.size {
                                        val.as_mut_ptr()
                                            .offset(i as isize)
                                            .write(::pilota::thrift::Message::decode(__protocol)?);
                                    }
                                    val.set_len(list_ident.size);
                                    __protocol.read_list_end()?;
                                    val
                                });
                            }
                            Some(4) if field_ident.field_type == ::pilota::thrift::TType::Map => {
                                var_4 = Some({
                                    let map_ident = __protocol.read_map_begin()?;
                                    let mut val = ::pilota::AHashMap::with_capacity(map_ident.size);
                                    for _ in 0..map_ident.size {
                                        val.insert(
                                            __protocol.read_faststr()?,
                                            ::pilota::thrift::Message::decode(__protocol)?,
                                        );
                                    }
                                    __protocol.read_map_end()?;
                                    val
                                });
                            }
                            _ => {
                                __pilota_offset += __protocol.skip(field_ident.field_type)?;
                                _unknown_fields.push_back(
                                    __protocol
                                        .get_bytes(Some(__pilota_begin_ptr), __pilota_offset)?,
                                );
                            }
                        }

                        __protocol.read_field_end()?;
                        __pilota_offset += __protocol.field_end_len();
                    }
                    ::std::result::Result::Ok::<_, ::pilota::thrift::ThriftException>(())
                })() {
                    if let Some(field_id) = __pilota_decoding_field_id {
                        err.prepend_msg(&format!(
                            "decode struct `Rec1` field(#{}) failed, caused by: ",
                            field_id
                        ));
                    }
                    return ::std::result::Result::Err(err);
                };
                __protocol.read_struct_end()?;

                let Some(var_1) = var_1 else {
                    return ::std::result::Result::Err(::pilota::thrift::new_protocol_exception(
                        ::pilota::thrift::ProtocolExceptionKind::InvalidData,
                        "field v is required".to_string(),
                    ));
                };

                let data = Self {
                    v: var_1,
                    next: var_2,
                    kids: var_3,
                    named: var_4,
                    _unknown_fields,
                };
                ::std::result::Result::Ok(data)
            }

            fn decode_async<'a, T: ::pilota::thrift::TAsyncInputProtocol>(
                __protocol: &'a mut T,
            ) -> ::std::pin::Pin<
                ::std::boxed::Box<
                    dyn ::std::future::Future<
                            Output = ::std::result::Result<Self, ::pilota::thrift::ThriftException>,
                        > + Send
                        + 'a,
                >,
            > {
                ::std::boxed::Box::pin(async move {
                    let mut var_1 = None;
                    let mut var_2 = None;
                    let mut var_3 = None;
                    let mut var_4 = None;

                    let mut __pilota_decoding_field_id = None;

                    __protocol.read_struct_begin().await?;
                    if let ::std::result::Result::Err(mut err) = async {
                        loop {
                            let field_ident = __protocol.read_field_begin().await?;
                            if field_ident.field_type == ::pilota::thrift::TType::Stop {
                                break;
                            } else {
                            }
                            __pilota_decoding_field_id = field_ident.id;
                            match field_ident.id {
                                Some(1)
                                    if field_ident.field_type == ::pilota::thrift::TType::I8 =>
                                {
                                    var_1 = Some(__protocol.read_i8().await?);
                                }
                                Some(2)
                                    if field_ident.field_type
                                        == ::pilota::thrift::TType::Struct =>
                                {
                                    var_2 = Some(::std::boxed::Box::new(
                                        <Rec1 as ::pilota::thrift::Message>::decode_async(
                                            __protocol,
                                        )
                                        .await?,
                                    ));
                                }
                                Some(3)
                                    if field_ident.field_type == ::pilota::thrift::TType::List =>
                                {
                                    var_3 = Some({
                                        let list_ident = __protocol.read_list_begin().await?;
                                        let mut val =
                                            ::std::vec::Vec::with_capacity(list_ident.size);
                                        for _ in 0..list_ident.size {
                                            val.push(
                                                <Rec1 as ::pilota::thrift::Message>::decode_async(
                                                    __protocol,
                                                )
                                                .await?,
                                            );
                                        }
                                        __protocol.read_list_end().await?;
                                        val
                                    });
                                }
                                Some(4)
                                    if field_ident.field_type == ::pilota::thrift::TType::Map =>
                                {
                                    var_4 = Some({
                                        let map_ident = __protocol.read_map_begin().await?;
                                        let mut val =
                                            ::pilota::AHashMap::with_capacity(map_ident.size);
                                        for _ in 0..map_ident.size {
                                            val.insert(
                                                __protocol.read_faststr().await?,
                                                <Rec1 as ::pilota::thrift::Message>::decode_async(
                                                    __protocol,
                                                )
                                                .await?,
                                            );
                                        }
                                        __protocol.read_map_end().await?;
                                        val
                                    });
                                }
                                _ => {
                                    __protocol.skip(field_ident.field_type).await?;
                                }
                            }

                            __protocol.read_field_end().await?;
                        }
                        ::std::result::Result::Ok::<_, ::pilota::thrift::ThriftException>(())
                    }
                    .await
                    {
                        if let Some(field_id) = __pilota_decoding_field_id {
                            err.prepend_msg(&format!(
                                "decode struct `Rec1` field(#{}) failed, caused by: ",
                                field_id
                            ));
                        }
                        return ::std::result::Result::Err(err);
                    };
                    __protocol.read_struct_end().await?;

                    let Some(var_1) = var_1 else {
                        return ::std::result::Result::Err(
                            ::pilota::thrift::new_protocol_exception(
                                ::pilota::thrift::ProtocolExceptionKind::InvalidData,
                                "field v is required".to_string(),
                            ),
                        );
                    };

                    let data = Self {
                        v: var_1,
                        next: var_2,
                        kids: var_3,
                        named: var_4,
                        _unknown_fields: ::pilota::LinkedBytes::new(),
                    };
                    ::std::result::Result::Ok(data)
                })
            }

            fn size<T: ::pilota::thrift::TLengthProtocol>(&self, __protocol: &mut T) -> usize {
                #[allow(unused_imports)]
                use ::pilota::thrift::TLengthProtocolExt;
                __protocol.struct_begin_len(&::pilota::thrift::TStructIdentifier { name: "Rec1" })
                    + __protocol.i8_field_len(Some(1), *&self.v)
                    + self
                        .next
                        .as_ref()
                        .map_or(0, |value| __protocol.struct_field_len(Some(2), value))
                    + self.kids.as_ref().map_or(0, |value| {
                        __protocol.list_field_len(
                            Some(3),
                            ::pilota::thrift::TType::Struct,
                            value,
                            |__protocol, el| __protocol.struct_len(el),
                        )
                    })
                    + self.named.as_ref().map_or(0, |value| {
                        __protocol.map_field_len(
                            Some(4),
                            ::pilota::thrift::TType::Binary,
                            ::pilota::thrift::TType::Struct,
                            value,
                            |__protocol, key| __protocol.faststr_len(key),
                            |__protocol, val| __protocol.struct_len(val),
                        )
                    })
                    + self._unknown_fields.size()
                    + __protocol.field_stop_len()
                    + __protocol.struct_end_len()
            }
        }
        #[derive(PartialOrd, Hash, Eq, Ord, Debug, Default, Clone, PartialEq)]
        pub struct TdEnum(pub E1);

        impl ::std::ops::Deref for TdEnum {
            type Target = E1;

            fn deref(&self) -> &Self::Target {
                &self.0
            }
        }

        impl From<E1> for TdEnum {
            fn from(v: E1) -> Self {
                Self(v)
            }
        }

        impl ::pilota::thrift::Message for TdEnum {
            fn encode<T: ::pilota::thrift::TOutputProtocol>(
                &self,
                __protocol: &mut T,
            ) -> ::std::result::Result<(), ::pilota::thrift::ThriftException> {
                #[allow(unused_imports)]
                use ::pilota::thrift::TOutputProtocolExt;
                __protocol.write_struct((&**self))?;
                ::std::result::Result::Ok(())
            }

            fn decode<T: ::pilota::thrift::TInputProtocol>(
                __protocol: &mut T,
            ) -> ::std::result::Result<Self, ::pilota::thrift::ThriftException> {
                #[allow(unused_imports)]
                use ::pilota::{thrift::TLengthProtocolExt, Buf};
                ::std::result::Result::Ok(TdEnum(::pilota::thrift::Message::decode(__protocol)?))
            }

            fn decode_async<'a, T: ::pilota::thrift::TAsyncInputProtocol>(
                __protocol: &'a mut T,
            ) -> ::std::pin::Pin<
                ::std::boxed::Box<
                    dyn ::std::future::Future<
                            Output = ::std::result::Result<Self, ::pilota::thrift::ThriftException>,
                        > + Send
                        + 'a,
                >,
            > {
                ::std::boxed::Box::pin(async move {
                    ::std::result::Result::Ok(TdEnum(
                        <E1 as ::pilota::thrift::Message>::decode_async(__protocol).await?,
                    ))
                })
            }

            fn size<T: ::pilota::thrift::TLengthProtocol>(&self, __protocol: &mut T) -> usize {
                #[allow(unused_imports)]
                use ::pilota::thrift::TLengthProtocolExt;
                __protocol.struct_len(&**self)
            }
        }
        impl ::std::default::Default for Un0 {
            fn default() -> Self {
                Un0::V1(::std::default::Default::default())
            }
        }
        #[derive(Debug, Clone, PartialEq)]
        pub enum Un0 {
            V1(E1),

            V2(::std::vec::Vec<::std::vec::Vec<::std::vec::Vec<i32>>>),

            V3(::std::vec::Vec<f64>),

            V4(::pilota::AHashMap<Leaf1, i32>),
            _UnknownFields(::pilota::LinkedBytes),
        }

        impl ::pilota::thrift::Message for Un0 {
            fn encode<T: ::pilota::thrift::TOutputProtocol>(
                &self,
                __protocol: &mut T,
            ) -> ::std::result::Result<(), ::pilota::thrift::ThriftException> {
                #[allow(unused_imports)]
                use ::pilota::thrift::TOutputProtocolExt;
                __protocol
                    .write_struct_begin(&::pilota::thrift::TStructIdentifier { name: "Un0" })?;
                match self {
                    Un0::V1(value) => {
                        __protocol.write_i32_field(1, (value).inner())?;
                    }
                    Un0::V2(value) => {
                        __protocol.write_list_field(
                            2,
                            ::pilota::thrift::TType::List,
                            &value,
                            |__protocol, val| {
                                __protocol.write_list(
                                    ::pilota::thrift::TType::List,
                                    &val,
                                    |__protocol, val| {
                                        __protocol.write_list(
                                            ::pilota::thrift::TType::I32,
                                            &val,
                                            |__protocol, val| {
                                                __protocol.write_i32(*val)?;
                                                ::std::result::Result::Ok(())
                                            },
                                        )?;
                                        ::std::result::Result::Ok(())
                                    },
                                )?;
                                ::std::result::Result::Ok(())
                            },
                        )?;
                    }
                    Un0::V3(value) => {
                        __protocol.write_list_field(
                            16,
                            ::pilota::thrift::TType::Double,
                            &value,
                            |__protocol, val| {
                                __protocol.write_double(*val)?;
                                ::std::result::Result::Ok(())
                            },
                        )?;
                    }
                    Un0::V4(value) => {
                        __protocol.write_map_field(
                            300,
                            ::pilota::thrift::TType::Struct,
                            ::pilota::thrift::TType::I32,
                            &value,
                            |__protocol, key| {
                                __protocol.write_struct(key)?;
                                ::std::result::Result::Ok(())
                            },
                            |__protocol, val| {
                                __protocol.write_i32(*val)?;
                                ::std::result::Result::Ok(())
                            },
                        )?;
                    }
                    Un0::_UnknownFields(value) => {
                        for bytes in value.list.iter() {
                            __protocol.write_bytes_without_len(bytes.clone());
                        }
                    }
                }
                __protocol.write_field_stop()?;
                __protocol.write_struct_end()?;
                ::std::result::Result::Ok(())
            }

            fn decode<T: ::pilota::thrift::TInputProtocol>(
                __protocol: &mut T,
            ) -> ::std::result::Result<Self, ::pilota::thrift::ThriftException> {
                #[allow(unused_imports)]
                use ::pilota::{thrift::TLengthProtocolExt, Buf};
                let mut ret = None;
                __protocol.read_struct_begin()?;
                loop {
                    let mut __pilota_offset = 0;
                    let __pilota_begin_ptr = __protocol.buf().chunk().as_ptr();
                    let field_ident = __protocol.read_field_begin()?;
                    if field_ident.field_type == ::pilota::thrift::TType::Stop {
                        __pilota_offset += __protocol.field_stop_len();
                        break;
                    } else {
                        __pilota_offset +=
                            __protocol.field_begin_len(field_ident.field_type, field_ident.id);
                    }
                    match field_ident.id {
                        Some(1) => {
                            if ret.is_none() {
                                let field_ident = ::pilota::thrift::Message::decode(__protocol)?;
                                __pilota_offset += __protocol.struct_len(&field_ident);
                                ret = Some(Un0::V1(field_ident));
                            } else {
                                return ::std::result::Result::Err(
                                    ::pilota::thrift::new_protocol_exception(
                                        ::pilota::thrift::ProtocolExceptionKind::InvalidData,
                                        "received multiple fields for union from remote Message",
                                    ),
                                );
                            }
                        }
                        Some(2) => {
                            if ret.is_none() {
                                let field_ident = unsafe {
                                    let list_ident = __protocol.read_list_begin()?;
                                    let mut val: ::std::vec::Vec<
                                        ::std::vec::Vec<::std::vec::Vec<i32>>,
                                    > = ::std::vec::Vec::with_capacity(list_ident.size);
                                    for i in 0..list_ident.size {
                                        val.as_mut_ptr().offset(i as isize).write(unsafe {
                                            let list_ident = __protocol.read_list_begin()?;
                                            let mut val: ::std::vec::Vec<::std::vec::Vec<i32>> =
                                                ::std::vec::Vec::with_capacity(list_ident.size);
                                            for i in 0..list_ident.size {
                                                val.as_mut_ptr().offset(i as isize).write(unsafe {
                                                    let list_ident =
                                                        __protocol.read_list_begin()?;
                                                    let mut val: ::std::vec::Vec<i32> =
                                                        ::std::vec::Vec::with_capacity(
                                                            list_ident.size,
                                                        );
                                                    for i in 0..list_ident.size {
                                                        val.as_mut_ptr()
                                                            .offset(i as isize)
                                                            .write(__protocol.read_i32()?);
                                                    }
                                                    val.set_len(list_ident.size);
                                                    __protocol.read_list_end()?;
                                                    val
                                                });
                                            }
                                            val.set_len(list_ident.size);
                                            __protocol.read_list_end()?;
                                            val
                                        });
                                    }
                                    val.set_len(list_ident.size);
                                    __protocol.read_list_end()?;
                                    val
                                };
                                __pilota_offset += __protocol.list_len(
                                    ::pilota::thrift::TType::List,
                                    &field_ident,
                                    |__protocol, el| {
                                        __protocol.list_len(
                                            ::pilota::thrift::TType::List,
                                            el,
                                            |__protocol, el| {
                                                __protocol.list_len(
                                                    ::pilota::thrift::TType::I32,
                                                    el,
                                                    |__protocol, el| __protocol.i32_len(*el),
                                                )
                                            },
                                        )
                                    },
                                );
                                ret = Some(Un0::V2(field_ident));
                            } else {
                                return ::std::result::Result::Err(
                                    ::pilota::thrift::new_protocol_exception(
                                        ::pilota::thrift::ProtocolExceptionKind::InvalidData,
                                        "received multiple fields for union from remote Message",
                                    ),
                                );
                            }
                        }
                        Some(16) => {
                            if ret.is_none() {
                                let field_ident = unsafe {
                                    let list_ident = __protocol.read_list_begin()?;
                                    let mut val: ::std::vec::Vec<f64> =
                                        ::std::vec::Vec::with_capacity(list_ident.size);
                                    for i in 0..list_ident.size {
                                        val.as_mut_ptr()
                                            .offset(i as isize)
                                            .write(__protocol.read_double()?);
                                    }
                                    val.set_len(list_ident.size);
                                    __protocol.read_list_end()?;
                                    val
                                };
                                __pilota_offset += __protocol.list_len(
                                    ::pilota::thrift::TType::Double,
                                    &field_ident,
                                    |__protocol, el| __protocol.double_len(*el),
                                );
                                ret = Some(Un0::V3(field_ident));
                            } else {
                                return ::std::result::Result::Err(
                                    ::pilota::thrift::new_protocol_exception(
                                        ::pilota::thrift::ProtocolExceptionKind::InvalidData,
                                        "received multiple fields for union from remote Message",
                                    ),
                                );
                            }
                        }
                        Some(300) => {
                            if ret.is_none() {
                                let field_ident = {
                                    let map_ident = __protocol.read_map_begin()?;
                                    let mut val = ::pilota::AHashMap::with_capacity(map_ident.size);
                                    for _ in 0..map_ident.size {
                                        val.insert(
                                            ::pilota::thrift::Message::decode(__protocol)?,
                                            __protocol.read_i32()?,
                                        );
                                    }
                                    __protocol.read_map_end()?;
                                    val
                                };
                                __pilota_offset += __protocol.map_len(
                                    ::pilota::thrift::TType::Struct,
                                    ::pilota::thrift::TType::I32,
                                    &field_ident,
                                    |__protocol, key| __protocol.struct_len(key),
                                    |__protocol, val| __protocol.i32_len(*val),
                                );
                                ret = Some(Un0::V4(field_ident));
                            } else {
                                return ::std::result::Result::Err(
                                    ::pilota::thrift::new_protocol_exception(
                                        ::pilota::thrift::ProtocolExceptionKind::InvalidData,
                                        "received multiple fields for union from remote Message",
                                    ),
                                );
                            }
                        }
                        _ => {
                            __pilota_offset += __protocol.skip(field_ident.field_type)?;
                            if ret.is_none() {
                                unsafe {
                                    let mut __pilota_linked_bytes = ::pilota::LinkedBytes::new();
                                    __pilota_linked_bytes.push_back(
                                        __protocol
                                            .get_bytes(Some(__pilota_begin_ptr), __pilota_offset)?,
                                    );
                                    ret = Some(Un0::_UnknownFields(__pilota_linked_bytes));
                                }
                            } else {
                                return ::std::result::Result::Err(
                                    ::pilota::thrift::new_protocol_exception(
                                        ::pilota::thrift::ProtocolExceptionKind::InvalidData,
                                        "received multiple fields for union from remote Message",
                                    ),
                                );
                            }
                        }
                    }
                }
                __protocol.read_field_end()?;
                __protocol.read_struct_end()?;
                if let Some(ret) = ret {
                    ::std::result::Result::Ok(ret)
                } else {
                    ::std::result::Result::Err(::pilota::thrift::new_protocol_exception(
                        ::pilota::thrift::ProtocolExceptionKind::InvalidData,
                        "received empty union from remote Message",
                    ))
                }
            }

            fn decode_async<'a, T: ::pilota::thrift::TAsyncInputProtocol>(
                __protocol: &'a mut T,
            ) -> ::std::pin::Pin<
                ::std::boxed::Box<
                    dyn ::std::future::Future<
                            Output = ::std::result::Result<Self, ::pilota::thrift::ThriftException>,
                        > + Send
                        + 'a,
                >,
            > {
                ::std::boxed::Box::pin(async move {
                    let mut ret = None;
                    __protocol.read_struct_begin().await?;
                    loop {
                        let field_ident = __protocol.read_field_begin().await?;
                        if field_ident.field_type == ::pilota::thrift::TType::Stop {
                            break;
                        } else {
                        }
                        match field_ident.id {
                            Some(1) => {
                                if ret.is_none() {
                                    let field_ident =
                                        <E1 as ::pilota::thrift::Message>::decode_async(__protocol)
                                            .await?;

                                    ret = Some(Un0::V1(field_ident));
                                } else {
                                    return ::std::result::Result::Err(::pilota::thrift::new_protocol_exception(
                                            ::pilota::thrift::ProtocolExceptionKind::InvalidData,
                                            "received multiple fields for union from remote Message"
                                        ));
                                }
                            }
                            Some(2) => {
                                if ret.is_none() {
                                    let field_ident = {
                                        let list_ident = __protocol.read_list_begin().await?;
                                        let mut val =
                                            ::std::vec::Vec::with_capacity(list_ident.size);
                                        for _ in 0..list_ident.size {
                                            val.push({
                                                let list_ident =
                                                    __protocol.read_list_begin().await?;
                                                let mut val =
                                                    ::std::vec::Vec::with_capacity(list_ident.size);
                                                for _ in 0..list_ident.size {
                                                    val.push({
                                                        let list_ident =
                                                            __protocol.read_list_begin().await?;
                                                        let mut val =
                                                            ::std::vec::Vec::with_capacity(
                                                                list_ident.size,
                                                            );
                                                        for _ in 0..list_ident.size {
                                                            val.push(__protocol.read_i32().await?);
                                                        }
                                                        __protocol.read_list_end().await?;
                                                        val
                                                    });
                                                }
                                                __protocol.read_list_end().await?;
                                                val
                                            });
                                        }
                                        __protocol.read_list_end().await?;
                                        val
                                    };

                                    ret = Some(Un0::V2(field_ident));
                                } else {
                                    return ::std::result::Result::Err(::pilota::thrift::new_protocol_exception(
                                            ::pilota::thrift::ProtocolExceptionKind::InvalidData,
                                            "received multiple fields for union from remote Message"
                                        ));
                                }
                            }
                            Some(16) => {
                                if ret.is_none() {
                                    let field_ident = {
                                        let list_ident = __protocol.read_list_begin().await?;
                                        let mut val =
                                            ::std::vec::Vec::with_capacity(list_ident.size);
                                        for _ in 0..list_ident.size {
                                            val.push(__protocol.read_double().await?);
                                        }
                                        __protocol.read_list_end().await?;
                                        val
                                    };

                                    ret = Some(Un0::V3(field_ident));
                                } else {
                                    return ::std::result::Result::Err(::pilota::thrift::new_protocol_exception(
                                            ::pilota::thrift::ProtocolExceptionKind::InvalidData,
                                            "received multiple fields for union from remote Message"
                                        ));
                                }
                            }
                            Some(300) => {
                                if ret.is_none() {
                                    let field_ident = {
                                        let map_ident = __protocol.read_map_begin().await?;
                                        let mut val =
                                            ::pilota::AHashMap::with_capacity(map_ident.size);
                                        for _ in 0..map_ident.size {
                                            val.insert(
                                                <Leaf1 as ::pilota::thrift::Message>::decode_async(
                                                    __protocol,
                                                )
                                                .await?,
                                                __protocol.read_i32().await?,
                                            );
                                        }
                                        __protocol.read_map_end().await?;
                                        val
                                    };

                                    ret = Some(Un0::V4(field_ident));
                                } else {
                                    return ::std::result::Result::Err(::pilota::thrift::new_protocol_exception(
                                            ::pilota::thrift::ProtocolExceptionKind::InvalidData,
                                            "received multiple fields for union from remote Message"
                                        ));
                                }
                            }
                            _ => {
                                __protocol.skip(field_ident.field_type).await?;
                            }
                        }
                    }
                    __protocol.read_field_end().await?;
                    __protocol.read_struct_end().await?;
                    if let Some(ret) = ret {
                        ::std::result::Result::Ok(ret)
                    } else {
                        ::std::result::Result::Err(::pilota::thrift::new_protocol_exception(
                            ::pilota::thrift::ProtocolExceptionKind::InvalidData,
                            "received empty union from remote Message",
                        ))
                    }
                })
            }

            fn size<T: ::pilota::thrift::TLengthProtocol>(&self, __protocol: &mut T) -> usize {
                #[allow(unused_imports)]
                use ::pilota::thrift::TLengthProtocolExt;
                __protocol.struct_begin_len(&::pilota::thrift::TStructIdentifier { name: "Un0" })
                    + match self {
                        Un0::V1(value) => __protocol.i32_field_len(Some(1), (value).inner()),
                        Un0::V2(value) => __protocol.list_field_len(
                            Some(2),
                            ::pilota::thrift::TType::List,
                            value,
                            |__protocol, el| {
                                __protocol.list_len(
                                    ::pilota::thrift::TType::List,
                                    el,
                                    |__protocol, el| {
                                        __protocol.list_len(
                                            ::pilota::thrift::TType::I32,
                                            el,
                                            |__protocol, el| __protocol.i32_len(*el),
                                        )
                                    },
                                )
                            },
                        ),
                        Un0::V3(value) => __protocol.list_field_len(
                            Some(16),
                            ::pilota::thrift::TType::Double,
                            value,
                            |__protocol, el| __protocol.double_len(*el),
                        ),
                        Un0::V4(value) => __protocol.map_field_len(
                            Some(300),
                            ::pilota::thrift::TType::Struct,
                            ::pilota::thrift::TType::I32,
                            value,
                            |__protocol, key| __protocol.struct_len(key),
                            |__protocol, val| __protocol.i32_len(*val),
                        ),
                        Un0::_UnknownFields(value) => value.size(),
                    }
                    + __protocol.field_stop_len()
                    + __protocol.struct_end_len()
            }
        }
        #[derive(Debug, Default, Clone, PartialEq)]
        pub struct S0x4 {
            pub f1: ::std::option::Option<::std::vec::Vec<u8>>,

            pub f2: U1,

            pub f3: ::std::option::Option<
                ::pilota::AHashMap<
                    ::pilota::FastStr,
                    ::std::vec::Vec<::pilota::AHashMap<i32, ::pilota::FastStr>>,
                >,
            >,
            pub _unknown_fields: ::pilota::LinkedBytes,
        }
        impl ::pilota::thrift::Message for S0x4 {
            fn encode<T: ::pilota::thrift::TOutputProtocol>(
                &self,
                __protocol: &mut T,
            ) -> ::std::result::Result<(), ::pilota::thrift::ThriftException> {
                #[allow(unused_imports)]
                use ::pilota::thrift::TOutputProtocolExt;
                let struct_ident = ::pilota::thrift::TStructIdentifier { name: "S0x4" };

                __protocol.write_struct_begin(&struct_ident)?;
                if let Some(value) = self.f1.as_ref() {
                    __protocol.write_bytes_vec_field(5, value)?;
                }
                __protocol.write_struct_field(20, &self.f2, ::pilota::thrift::TType::Struct)?;
                if let Some(value) = self.f3.as_ref() {
                    __protocol.write_map_field(
                        21,
                        ::pilota::thrift::TType::Binary,
                        ::pilota::thrift::TType::List,
                        &value,
                        |__protocol, key| {
                            __protocol.write_faststr((key).clone())?;
                            ::std::result::Result::Ok(())
                        },
                        |__protocol, val| {
                            __protocol.write_list(
                                ::pilota::thrift::TType::Map,
                                &val,
                                |__protocol, val| {
                                    __protocol.write_map(
                                        ::pilota::thrift::TType::I32,
                                        ::pilota::thrift::TType::Binary,
                                        &val,
                                        |__protocol, key| {
                                            __protocol.write_i32(*key)?;
                                            ::std::result::Result::Ok(())
                                        },
                                        |__protocol, val| {
                                            __protocol.write_faststr((val).clone())?;
                                            ::std::result::Result::Ok(())
                                        },
                                    )?;
                                    ::std::result::Result::Ok(())
                                },
                            )?;
                            ::std::result::Result::Ok(())
                        },
                    )?;
                }
                for bytes in self._unknown_fields.list.iter() {
                    __protocol.write_bytes_without_len(bytes.clone());
                }
                __protocol.write_field_stop()?;
                __protocol.write_struct_end()?;
                ::std::result::Result::Ok(())
            }

            fn decode<T: ::pilota::thrift::TInputProtocol>(
                __protocol: &mut T,
            ) -> ::std::result::Result<Self, ::pilota::thrift::ThriftException> {
                #[allow(unused_imports)]
                use ::pilota::{thrift::TLengthProtocolExt, Buf};

                let mut var_5 = None;
                let mut var_20 = None;
                let mut var_21 = None;
                let mut _unknown_fields = ::pilota::LinkedBytes::new();

                let mut __pilota_decoding_field_id = None;

                __protocol.read_struct_begin()?;
                if let ::std::result::Result::Err(mut err) = (|| {
                    loop {
                        let mut __pilota_offset = 0;
                        let __pilota_begin_ptr = __protocol.buf().chunk().as_ptr();
                        let field_ident = __protocol.read_field_begin()?;
                        if field_ident.field_type == ::pilota::thrift::TType::Stop {
                            __pilota_offset += __protocol.field_stop_len();
                            break;
                        } else {
                            __pilota_offset +=
                                __protocol.field_begin_len(field_ident.field_type, field_ident.id);
                        }
                        __pilota_decoding_field_id = field_ident.id;
                        match field_ident.id {
                            Some(5)
                                if field_ident.field_type == ::pilota::thrift::TType::Binary =>
                            {
                                var_5 = Some(__protocol.read_bytes_vec()?);
                            }
                            Some(20)
                                if field_ident.field_type == ::pilota::thrift::TType::Struct =>
                            {
                                var_20 = Some(::pilota::thrift::Message::decode(__protocol)?);
                            }
                            Some(21) if field_ident.field_type == ::pilota::thrift::TType::Map => {
                                var_21 = Some({
                                    let map_ident = __protocol.read_map_begin()?;
                                    let mut val = ::pilota::AHashMap::with_capacity(map_ident.size);
                                    for _ in 0..map_ident.size {
                                        val.insert(__protocol.read_faststr()?, unsafe {
                                            let list_ident = __protocol.read_list_begin()?;
                                            let mut val: ::std::vec::Vec<
                                                ::pilota::AHashMap<i32, ::pilota::FastStr>,
                                            > = ::std::vec::Vec::with_capacity(list_ident.size);
                                            for i in 0..list_ident.size {
                                                val.as_mut_ptr().offset(i as isize).write({
                                                    let map_ident = __protocol.read_map_begin()?;
                                                    let mut val = ::pilota::AHashMap::with_capacity(
                                                        map_ident.size,
                                                    );
                                                    for _ in 0..map_ident.size {
                                                        val.insert(
                                                            __protocol.read_i32()?,
                                                            __protocol.read_faststr()?,
                                                        );
                                                    }
                                                    __protocol.read_map_end()?;
                                                    val
                                                });
                                            }
                                            val.set_len(list_ident.size);
                                            __protocol.read_list_end()?;
                                            val
                                        });
                                    }
                                    __protocol.read_map_end()?;
                                    val
                                });
                            }
                            _ => {
                                __pilota_offset += __protocol.skip(field_ident.field_type)?;
                                _unknown_fields.push_back(
                                    __protocol
                                        .get_bytes(Some(__pilota_begin_ptr), __pilota_offset)?,
                                );
                            }
                        }

                        __protocol.read_field_end()?;
                        __pilota_offset += __protocol.field_end_len();
                    }
                    ::std::result::Result::Ok::<_, ::pilota::thrift::ThriftException>(())
                })() {
                    if let Some(field_id) = __pilota_decoding_field_id {
                        err.prepend_msg(&format!(
                            "decode struct `S0x4` field(#{}) failed, caused by: ",
                            field_id
                        ));
                    }
                    return ::std::result::Result::Err(err);
                };
                __protocol.read_struct_end()?;

                let Some(var_20) = var_20 else {
                    return ::std::result::Result::Err(::pilota::thrift::new_protocol_exception(
                        ::pilota::thrift::ProtocolExceptionKind::InvalidData,
                        "field f2 is required".to_string(),
                    ));
                };

                let data = Self {
                    f1: var_5,
                    f2: var_20,
                    f3: var_21,
                    _unknown_fields,
                };
                ::std::result::Result::Ok(data)
            }

            fn decode_async<'a, T: ::pilota::thrift::TAsyncInputProtocol>(
                __protocol: &'a mut T,
            ) -> ::std::pin::Pin<
                ::std::boxed::Box<
                    dyn ::std::future::Future<
                            Output = ::std::result::Result<Self, ::pilota::thrift::ThriftException>,
                        > + Send
                        + 'a,
                >,
            > {
                ::std::boxed::Box::pin(async move {
                    let mut var_5 = None;
                    let mut var_20 = None;
                    let mut var_21 = None;

                    let mut __pilota_decoding_field_id = None;

                    __protocol.read_struct_begin().await?;
                    if let ::std::result::Result::Err(mut err) = async {
                        loop {
                            let field_ident = __protocol.read_field_begin().await?;
                            if field_ident.field_type == ::pilota::thrift::TType::Stop {
                                break;
                            } else {
                            }
                            __pilota_decoding_field_id = field_ident.id;
                            match field_ident.id {
                                Some(5)
                                    if field_ident.field_type
                                        == ::pilota::thrift::TType::Binary =>
                                {
                                    var_5 = Some(__protocol.read_bytes_vec().await?);
                                }
                                Some(20)
                                    if field_ident.field_type
                                        == ::pilota::thrift::TType::Struct =>
                                {
                                    var_20 = Some(
                                        <U1 as ::pilota::thrift::Message>::decode_async(__protocol)
                                            .await?,
                                    );
                                }
                                Some(21)
                                    if field_ident.field_type == ::pilota::thrift::TType::Map =>
                                {
                                    var_21 = Some({
                                        let map_ident = __protocol.read_map_begin().await?;
                                        let mut val =
                                            ::pilota::AHashMap::with_capacity(map_ident.size);
                                        for _ in 0..map_ident.size {
                                            val.insert(__protocol.read_faststr().await?, {
                                                let list_ident =
                                                    __protocol.read_list_begin().await?;
                                                let mut val =
                                                    ::std::vec::Vec::with_capacity(list_ident.size);
                                                for _ in 0..list_ident.size {
                                                    val.push({
                                                        let map_ident =
                                                            __protocol.read_map_begin().await?;
                                                        let mut val =
                                                            ::pilota::AHashMap::with_capacity(
                                                                map_ident.size,
                                                            );
                                                        for _ in 0..map_ident.size {
                                                            val.insert(
                                                                __protocol.read_i32().await?,
                                                                __protocol.read_faststr().await?,
                                                            );
                                                        }
                                                        __protocol.read_map_end().await?;
                                                        val
                                                    });
                                                }
                                                __protocol.read_list_end().await?;
                                                val
                                            });
                                        }
                                        __protocol.read_map_end().await?;
                                        val
                                    });
                                }
                                _ => {
                                    __protocol.skip(field_ident.field_type).await?;
                                }
                            }

                            __protocol.read_field_end().await?;
                        }
                        ::std::result::Result::Ok::<_, ::pilota::thrift::ThriftException>(())
                    }
                    .await
                    {
                        if let Some(field_id) = __pilota_decoding_field_id {
                            err.prepend_msg(&format!(
                                "decode struct `S0x4` field(#{}) failed, caused by: ",
                                field_id
                            ));
                        }
                        return ::std::result::Result::Err(err);
                    };
                    __protocol.read_struct_end().await?;

                    let Some(var_20) = var_20 else {
                        return ::std::result::Result::Err(
                            ::pilota::thrift::new_protocol_exception(
                                ::pilota::thrift::ProtocolExceptionKind::InvalidData,
                                "field f2 is required".to_string(),
                            ),
                        );
                    };

                    let data = Self {
                        f1: var_5,
                        f2: var_20,
                        f3: var_21,
                        _unknown_fields: ::pilota::LinkedBytes::new(),
                    };
                    ::std::result::Result::Ok(data)
                })
            }

            fn size<T: ::pilota::thrift::TLengthProtocol>(&self, __protocol: &mut T) -> usize {
                #[allow(unused_imports)]
                use ::pilota::thrift::TLengthProtocolExt;
                __protocol.struct_begin_len(&::pilota::thrift::TStructIdentifier { name: "S0x4" })
                    + self
                        .f1
                        .as_ref()
                        .map_or(0, |value| __protocol.bytes_vec_field_len(Some(5), value))
                    + __protocol.struct_field_len(Some(20), &self.f2)
                    + self.f3.as_ref().map_or(0, |value| {
                        __protocol.map_field_len(
                            Some(21),
                            ::pilota::thrift::TType::Binary,
                            ::pilota::thrift::TType::List,
                            value,
                            |__protocol, key| __protocol.faststr_len(key),
                            |__protocol, val| {
                                __protocol.list_len(
                                    ::pilota::thrift::TType::Map,
                                    val,
                                    |__protocol, el| {
                                        __protocol.map_len(
                                            ::pilota::thrift::TType::I32,
                                            ::pilota::thrift::TType::Binary,
                                            el,
                                            |__protocol, key| __protocol.i32_len(*key),
                                            |__protocol, val| __protocol.faststr_len(val),
                                        )
                                    },
                                )
                            },
                        )
                    })
                    + self._unknown_fields.size()
                    + __protocol.field_stop_len()
                    + __protocol.struct_end_len()
            }
        }
        impl ::std::default::Default for Svc0MdResultSend {
            fn default() -> Self {
                Svc0MdResultSend::Ok(::std::default::Default::default())
            }
        }
        #[derive(PartialOrd, Hash, Eq, Ord, Debug, Clone, PartialEq)]
        pub enum Svc0MdResultSend {
            Ok(()),
        }

        impl ::pilota::thrift::Message for Svc0MdResultSend {
            fn encode<T: ::pilota::thrift::TOutputProtocol>(
                &self,
                __protocol: &mut T,
            ) -> ::std::result::Result<(), ::pilota::thrift::ThriftException> {
                #[allow(unused_imports)]
                use ::pilota::thrift::TOutputProtocolExt;
                __protocol.write_struct_begin(&::pilota::thrift::TStructIdentifier {
                    name: "Svc0MdResultSend",
                })?;
                match self {
                    Svc0MdResultSend::Ok(value) => {}
                }
                __protocol.write_field_stop()?;
                __protocol.write_struct_end()?;
                ::std::result::Result::Ok(())
            }

            fn decode<T: ::pilota::thrift::TInputProtocol>(
                __protocol: &mut T,
            ) -> ::std::result::Result<Self, ::pilota::thrift::ThriftException> {
                #[allow(unused_imports)]
                use ::pilota::{thrift::TLengthProtocolExt, Buf};
                let mut ret = None;
                __protocol.read_struct_begin()?;
                loop {
                    let field_ident = __protocol.read_field_begin()?;
                    if field_ident.field_type == ::pilota::thrift::TType::Stop {
                        __protocol.field_stop_len();
                        break;
                    } else {
                        __protocol.field_begin_len(field_ident.field_type, field_ident.id);
                    }
                    match field_ident.id {
                        _ => {
                            __protocol.skip(field_ident.field_type)?;
                        }
                    }
                }
                __protocol.read_field_end()?;
                __protocol.read_struct_end()?;
                if let Some(ret) = ret {
                    ::std::result::Result::Ok(ret)
                } else {
                    ::std::result::Result::Ok(Svc0MdResultSend::Ok(()))
                }
            }

            fn decode_async<'a, T: ::pilota::thrift::TAsyncInputProtocol>(
                __protocol: &'a mut T,
            ) -> ::std::pin::Pin<
                ::std::boxed::Box<
                    dyn ::std::future::Future<
                            Output = ::std::result::Result<Self, ::pilota::thrift::ThriftException>,
                        > + Send
                        + 'a,
                >,
            > {
                ::std::boxed::Box::pin(async move {
                    let mut ret = None;
                    __protocol.read_struct_begin().await?;
                    loop {
                        let field_ident = __protocol.read_field_begin().await?;
                        if field_ident.field_type == ::pilota::thrift::TType::Stop {
                            break;
                        } else {
                        }
                        match field_ident.id {
                            _ => {
                                __protocol.skip(field_ident.field_type).await?;
                            }
                        }
                    }
                    __protocol.read_field_end().await?;
                    __protocol.read_struct_end().await?;
                    if let Some(ret) = ret {
                        ::std::result::Result::Ok(ret)
                    } else {
                        ::std::result::Result::Ok(Svc0MdResultSend::Ok(()))
                    }
                })
            }

            fn size<T: ::pilota::thrift::TLengthProtocol>(&self, __protocol: &mut T) -> usize {
                #[allow(unused_imports)]
                use ::pilota::thrift::TLengthProtocolExt;
                __protocol.struct_begin_len(&::pilota::thrift::TStructIdentifier {
                    name: "Svc0MdResultSend",
                }) + match self {
                    Svc0MdResultSend::Ok(value) => 0,
                } + __protocol.field_stop_len()
                    + __protocol.struct_end_len()
            }
        }
        impl ::std::default::Default for Svc0MbResultSend {
            fn default() -> Self {
                Svc0MbResultSend::Ok(::std::default::Default::default())
            }
        }
        #[derive(PartialOrd, Hash, Eq, Ord, Debug, Clone, PartialEq)]
        pub enum Svc0MbResultSend {
            Ok(()),
        }

        impl ::pilota::thrift::Message for Svc0MbResultSend {
            fn encode<T: ::pilota::thrift::TOutputProtocol>(
                &self,
                __protocol: &mut T,
            ) -> ::std::result::Result<(), ::pilota::thrift::ThriftException> {
                #[allow(unused_imports)]
                use ::pilota::thrift::TOutputProtocolExt;
                __protocol.write_struct_begin(&::pilota::thrift::TStructIdentifier {
                    name: "Svc0MbResultSend",
                })?;
                match self {
                    Svc0MbResultSend::Ok(value) => {}
                }
                __protocol.write_field_stop()?;
                __protocol.write_struct_end()?;
                ::std::result::Result::Ok(())
            }

            fn decode<T: ::pilota::thrift::TInputProtocol>(
                __protocol: &mut T,
            ) -> ::std::result::Result<Self, ::pilota::thrift::ThriftException> {
                #[allow(unused_imports)]
                use ::pilota::{thrift::TLengthProtocolExt, Buf};
                let mut ret = None;
                __protocol.read_struct_begin()?;
                loop {
                    let field_ident = __protocol.read_field_begin()?;
                    if field_ident.field_type == ::pilota::thrift::TType::Stop {
                        __protocol.field_stop_len();
                        break;
                    } else {
                        __protocol.field_begin_len(field_ident.field_type, field_ident.id);
                    }
                    match field_ident.id {
                        _ => {
                            __protocol.skip(field_ident.field_type)?;
                        }
                    }
                }
                __protocol.read_field_end()?;
                __protocol.read_struct_end()?;
                if let Some(ret) = ret {
                    ::std::result::Result::Ok(ret)
                } else {
                    ::std::result::Result::Ok(Svc0MbResultSend::Ok(()))
                }
            }

            fn decode_async<'a, T: ::pilota::thrift::TAsyncInputProtocol>(
                __protocol: &'a mut T,
            ) -> ::std::pin::Pin<
                ::std::boxed::Box<
                    dyn ::std::future::Future<
                            Output = ::std::result::Result<Self, ::pilota::thrift::ThriftException>,
                        > + Send
                        + 'a,
                >,
            > {
                ::std::boxed::Box::pin(async move {
                    let mut ret = None;
                    __protocol.read_struct_begin().await?;
                    loop {
                        let field_ident = __protocol.read_field_begin().await?;
                        if field_ident.field_type == ::pilota::thrift::TType::Stop {
                            break;
                        } else {
                        }
                        match field_ident.id {
                            _ => {
                                __protocol.skip(field_ident.field_type).await?;
                            }
                        }
                    }
                    __protocol.read_field_end().await?;
                    __protocol.read_struct_end().await?;
                    if let Some(ret) = ret {
                        ::std::result::Result::Ok(ret)
                    } else {
                        ::std::result::Result::Ok(Svc0MbResultSend::Ok(()))
                    }
                })
            }

            fn size<T: ::pilota::thrift::TLengthProtocol>(&self, __protocol: &mut T) -> usize {
                #[allow(unused_imports)]
                use ::pilota::thrift::TLengthProtocolExt;
                __protocol.struct_begin_len(&::pilota::thrift::TStructIdentifier {
                    name: "Svc0MbResultSend",
                }) + match self {
                    Svc0MbResultSend::Ok(value) => 0,
                } + __protocol.field_stop_len()
                    + __protocol.struct_end_len()
            }
        }
        impl ::std::default::Default for Svc0MaResultRecv {
            fn default() -> Self {
                Svc0MaResultRecv::Ok(::std::default::Default::default())
            }
        }
        #[derive(PartialOrd, Hash, Eq, Ord, Debug, Clone, PartialEq)]
        pub enum Svc0MaResultRecv {
            Ok(S0x0),

            E1(Ex1),
        }

        impl ::pilota::thrift::Message for Svc0MaResultRecv {
            fn encode<T: ::pilota::thrift::TOutputProtocol>(
                &self,
                __protocol: &mut T,
            ) -> ::std::result::Result<(), ::pilota::thrift::ThriftException> {
                #[allow(unused_imports)]
                use ::pilota::thrift::TOutputProtocolExt;
                __protocol.write_struct_begin(&::pilota::thrift::TStructIdentifier {
                    name: "Svc0MaResultRecv",
                })?;
                match self {
                    Svc0MaResultRecv::Ok(value) => {
                        __protocol.write_struct_field(0, value, ::pilota::thrift::TType::Struct)?;
                    }
                    Svc0MaResultRecv::E1(value) => {
                        __protocol.write_struct_field(1, value, ::pilota::thrift::TType::Struct)?;
                    }
                }
                __protocol.write_field_stop()?;
                __protocol.write_struct_end()?;
                ::std::result::Result::Ok(())
            }

            fn decode<T: ::pilota::thrift::TInputProtocol>(
                __protocol: &mut T,
            ) -> ::std::result::Result<Self, ::pilota::thrift::ThriftException> {
                #[allow(unused_imports)]
                use ::pilota::{thrift::TLengthProtocolExt, Buf};
                let mut ret = None;
                __protocol.read_struct_begin()?;
                loop {
                    let field_ident = __protocol.read_field_begin()?;
                    if field_ident.field_type == ::pilota::thrift::TType::Stop {
                        __protocol.field_stop_len();
                        break;
                    } else {
                        __protocol.field_begin_len(field_ident.field_type, field_ident.id);
                    }
                    match field_ident.id {
                        Some(0) => {
                            if ret.is_none() {
                                let field_ident = ::pilota::thrift::Message::decode(__protocol)?;
                                __protocol.struct_len(&field_ident);
                                ret = Some(Svc0MaResultRecv::Ok(field_ident));
                            } else {
                                return ::std::result::Result::Err(
                                    ::pilota::thrift::new_protocol_exception(
                                        ::pilota::thrift::ProtocolExceptionKind::InvalidData,
                                        "received multiple fields for union from remote Message",
                                    ),
                                );
                            }
                        }
                        Some(1) => {
                            if ret.is_none() {
                                let field_ident = ::pilota::thrift::Message::decode(__protocol)?;
                                __protocol.struct_len(&field_ident);
                                ret = Some(Svc0MaResultRecv::E1(field_ident));
                            } else {
                                return ::std::result::Result::Err(
                                    ::pilota::thrift::new_protocol_exception(
                                        ::pilota::thrift::ProtocolExceptionKind::InvalidData,
                                        "received multiple fields for union from remote Message",
                                    ),
                                );
                            }
                        }
                        _ => {
                            __protocol.skip(field_ident.field_type)?;
                        }
                    }
                }
                __protocol.read_field_end()?;
                __protocol.read_struct_end()?;
                if let Some(ret) = ret {
                    ::std::result::Result::Ok(ret)
                } else {
                    ::std::result::Result::Err(::pilota::thrift::new_protocol_exception(
                        ::pilota::thrift::ProtocolExceptionKind::InvalidData,
                        "received empty union from remote Message",
                    ))
                }
            }

            fn decode_async<'a, T: ::pilota::thrift::TAsyncInputProtocol>(
                __protocol: &'a mut T,
            ) -> ::std::pin::Pin<
                ::std::boxed::Box<
                    dyn ::std::future::Future<
                            Output = ::std::result::Result<Self, ::pilota::thrift::ThriftException>,
                        > + Send
                        + 'a,
                >,
            > {
                ::std::boxed::Box::pin(async move {
                    let mut ret = None;
                    __protocol.read_struct_begin().await?;
                    loop {
                        let field_ident = __protocol.read_field_begin().await?;
                        if field_ident.field_type == ::pilota::thrift::TType::Stop {
                            break;
                        } else {
                        }
                        match field_ident.id {
                            Some(0) => {
                                if ret.is_none() {
                                    let field_ident =
                                        <S0x0 as ::pilota::thrift::Message>::decode_async(
                                            __protocol,
                                        )
                                        .await?;

                                    ret = Some(Svc0MaResultRecv::Ok(field_ident));
                                } else {
                                    return ::std::result::Result::Err(::pilota::thrift::new_protocol_exception(
                                            ::pilota::thrift::ProtocolExceptionKind::InvalidData,
                                            "received multiple fields for union from remote Message"
                                        ));
                                }
                            }
                            Some(1) => {
                                if ret.is_none() {
                                    let field_ident =
                                        <Ex1 as ::pilota::thrift::Message>::decode_async(
                                            __protocol,
                                        )
                                        .await?;

                                    ret = Some(Svc0MaResultRecv::E1(field_ident));
                                } else {
                                    return ::std::result::Result::Err(::pilota::thrift::new_protocol_exception(
                                            ::pilota::thrift::ProtocolExceptionKind::InvalidData,
                                            "received multiple fields for union from remote Message"
                                        ));
                                }
                            }
                            _ => {
                                __protocol.skip(field_ident.field_type).await?;
                            }
                        }
                    }
                    __protocol.read_field_end().await?;
                    __protocol.read_struct_end().await?;
                    if let Some(ret) = ret {
                        ::std::result::Result::Ok(ret)
                    } else {
                        ::std::result::Result::Err(::pilota::thrift::new_protocol_exception(
                            ::pilota::thrift::ProtocolExceptionKind::InvalidData,
                            "received empty union from remote Message",
                        ))
                    }
                })
            }

            fn size<T: ::pilota::thrift::TLengthProtocol>(&self, __protocol: &mut T) -> usize {
                #[allow(unused_imports)]
                use ::pilota::thrift::TLengthProtocolExt;
                __protocol.struct_begin_len(&::pilota::thrift::TStructIdentifier {
                    name: "Svc0MaResultRecv",
                }) + match self {
                    Svc0MaResultRecv::Ok(value) => __protocol.struct_field_len(Some(0), value),
                    Svc0MaResultRecv::E1(value) => __protocol.struct_field_len(Some(1), value),
                } + __protocol.field_stop_len()
                    + __protocol.struct_end_len()
            }
        }
        #[derive(PartialOrd, Hash, Eq, Ord, Debug, Default, Clone, PartialEq)]
        pub struct S0x11 {
            pub f1: [u8; 16],

            pub f2: TdI32,

            pub f3: ::std::option::Option<::std::vec::Vec<Leaf1>>,
            pub _unknown_fields: ::pilota::LinkedBytes,
        }
        impl ::pilota::thrift::Message for S0x11 {
            fn encode<T: ::pilota::thrift::TOutputProtocol>(
                &self,
                __protocol: &mut T,
            ) -> ::std::result::Result<(), ::pilota::thrift::ThriftException> {
                #[allow(unused_imports)]
                use ::pilota::thrift::TOutputProtocolExt;
                let struct_ident = ::pilota::thrift::TStructIdentifier { name: "S0x11" };

                __protocol.write_struct_begin(&struct_ident)?;
                __protocol.write_uuid_field(1, *&self.f1)?;
                __protocol.write_struct_field(2, &self.f2, ::pilota::thrift::TType::I32)?;
                if let Some(value) = self.f3.as_ref() {
                    __protocol.write_list_field(
                        32767,
                        ::pilota::thrift::TType::Struct,
                        &value,
                        |__protocol, val| {
                            __protocol.write_struct(val)?;
                            ::std::result::Result::Ok(())
                        },
                    )?;
                }
                for bytes in self._unknown_fields.list.iter() {
                    __protocol.write_bytes_without_len(bytes.clone());
                }
                __protocol.write_field_stop()?;
                __protocol.write_struct_end()?;
                ::std::result::Result::Ok(())
            }

            fn decode<T: ::pilota::thrift::TInputProtocol>(
                __protocol: &mut T,
            ) -> ::std::result::Result<Self, ::pilota::thrift::ThriftException> {
                #[allow(unused_imports)]
                use ::pilota::{thrift::TLengthProtocolExt, Buf};

                let mut var_1 = None;
                let mut var_2 = None;
                let mut var_32767 = None;
                let mut _unknown_fields = ::pilota::LinkedBytes::new();

                let mut __pilota_decoding_field_id = None;

                __protocol.read_struct_begin()?;
                if let ::std::result::Result::Err(mut err) = (|| {
                    loop {
                        let mut __pilota_offset = 0;
                        let __pilota_begin_ptr = __protocol.buf().chunk().as_ptr();
                        let field_ident = __protocol.read_field_begin()?;
                        if field_ident.field_type == ::pilota::thrift::TType::Stop {
                            __pilota_offset += __protocol.field_stop_len();
                            break;
                        } else {
                            __pilota_offset +=
                                __protocol.field_begin_len(field_ident.field_type, field_ident.id);
                        }
                        __pilota_decoding_field_id = field_ident.id;
                        match field_ident.id {
                            Some(1) if field_ident.field_type == ::pilota::thrift::TType::Uuid => {
                                var_1 = Some(__protocol.read_uuid()?);
                            }
                            Some(2) if field_ident.field_type == ::pilota::thrift::TType::I32 => {
                                var_2 = Some(::pilota::thrift::Message::decode(__protocol)?);
                            }
                            Some(32767)
                                if field_ident.field_type == ::pilota::thrift::TType::List =>
                            {
                                var_32767 = Some(unsafe {
                                    let list_ident = __protocol.read_list_begin()?;
                                    let mut val: ::std::vec::Vec<Leaf1> =
                                        ::std::vec::Vec::with_capacity(list_ident.size);
                                    for i in 0..list_ident.size {
                                        val.as_mut_ptr()
                                            .offset(i as isize)
                                            .write(::pilota::thrift::Message::decode(__protocol)?);
                                    }
                                    val.set_len(list_ident.size);
                                    __protocol.read_list_end()?;
                                    val
                                });
                            }
                            _ => {
                                __pilota_offset += __protocol.skip(field_ident.field_type)?;
                                _unknown_fields.push_back(
                                    __protocol
                                        .get_bytes(Some(__pilota_begin_ptr), __pilota_offset)?,
                                );
                            }
                        }

                        __protocol.read_field_end()?;
                        __pilota_offset += __protocol.field_end_len();
                    }
                    ::std::result::Result::Ok::<_, ::pilota::thrift::ThriftException>(())
                })() {
                    if let Some(field_id) = __pilota_decoding_field_id {
                        err.prepend_msg(&format!(
                            "decode struct `S0x11` field(#{}) failed, caused by: ",
                            field_id
                        ));
                    }
                    return ::std::result::Result::Err(err);
                };
                __protocol.read_struct_end()?;

                let Some(var_1) = var_1 else {
                    return ::std::result::Result::Err(::pilota::thrift::new_protocol_exception(
                        ::pilota::thrift::ProtocolExceptionKind::InvalidData,
                        "field f1 is required".to_string(),
                    ));
                };
                let Some(var_2) = var_2 else {
                    return ::std::result::Result::Err(::pilota::thrift::new_protocol_exception(
                        ::pilota::thrift::ProtocolExceptionKind::InvalidData,
                        "field f2 is required".to_string(),
                    ));
                };

                let data = Self {
                    f1: var_1,
                    f2: var_2,
                    f3: var_32767,
                    _unknown_fields,
                };
                ::std::result::Result::Ok(data)
            }

            fn decode_async<'a, T: ::pilota::thrift::TAsyncInputProtocol>(
                __protocol: &'a mut T,
            ) -> ::std::pin::Pin<
                ::std::boxed::Box<
                    dyn ::std::future::Future<
                            Output = ::std::result::Result<Self, ::pilota::thrift::ThriftException>,
                        > + Send
                        + 'a,
                >,
            > {
                ::std::boxed::Box::pin(async move {
                    let mut var_1 = None;
                    let mut var_2 = None;
                    let mut var_32767 = None;

                    let mut __pilota_decoding_field_id = None;

                    __protocol.read_struct_begin().await?;
                    if let ::std::result::Result::Err(mut err) = async {
                        loop {
                            let field_ident = __protocol.read_field_begin().await?;
                            if field_ident.field_type == ::pilota::thrift::TType::Stop {
                                break;
                            } else {
                            }
                            __pilota_decoding_field_id = field_ident.id;
                            match field_ident.id {
                                Some(1)
                                    if field_ident.field_type == ::pilota::thrift::TType::Uuid =>
                                {
                                    var_1 = Some(__protocol.read_uuid().await?);
                                }
                                Some(2)
                                    if field_ident.field_type == ::pilota::thrift::TType::I32 =>
                                {
                                    var_2 = Some(
                                        <TdI32 as ::pilota::thrift::Message>::decode_async(
                                            __protocol,
                                        )
                                        .await?,
                                    );
                                }
                                Some(32767)
                                    if field_ident.field_type == ::pilota::thrift::TType::List =>
                                {
                                    var_32767 = Some({
                                        let list_ident = __protocol.read_list_begin().await?;
                                        let mut val =
                                            ::std::vec::Vec::with_capacity(list_ident.size);
                                        for _ in 0..list_ident.size {
                                            val.push(
                                                <Leaf1 as ::pilota::thrift::Message>::decode_async(
                                                    __protocol,
                                                )
                                                .await?,
                                            );
                                        }
                                        __protocol.read_list_end().await?;
                                        val
                                    });
                                }
                                _ => {
                                    __protocol.skip(field_ident.field_type).await?;
                                }
                            }

                            __protocol.read_field_end().await?;
                        }
                        ::std::result::Result::Ok::<_, ::pilota::thrift::ThriftException>(())
                    }
                    .await
                    {
                        if let Some(field_id) = __pilota_decoding_field_id {
                            err.prepend_msg(&format!(
                                "decode struct `S0x11` field(#{}) failed, caused by: ",
                                field_id
                            ));
                        }
                        return ::std::result::Result::Err(err);
                    };
                    __protocol.read_struct_end().await?;

                    let Some(var_1) = var_1 else {
                        return ::std::result::Result::Err(
                            ::pilota::thrift::new_protocol_exception(
                                ::pilota::thrift::ProtocolExceptionKind::InvalidData,
                                "field f1 is required".to_string(),
                            ),
                        );
                    };
                    let Some(var_2) = var_2 else {
                        return ::std::result::Result::Err(
                            ::pilota::thrift::new_protocol_exception(
                                ::pilota::thrift::ProtocolExceptionKind::InvalidData,
                                "field f2 is required".to_string(),
                            ),
                        );
                    };

                    let data = Self {
                        f1: var_1,
                        f2: var_2,
                        f3: var_32767,
                        _unknown_fields: ::pilota::LinkedBytes::new(),
                    };
                    ::std::result::Result::Ok(data)
                })
            }

            fn size<T: ::pilota::thrift::TLengthProtocol>(&self, __protocol: &mut T) -> usize {
                #[allow(unused_imports)]
                use ::pilota::thrift::TLengthProtocolExt;
                __protocol.struct_begin_len(&::pilota::thrift::TStructIdentifier { name: "S0x11" })
                    + __protocol.uuid_field_len(Some(1), *&self.f1)
                    + __protocol.struct_field_len(Some(2), &self.f2)
                    + self.f3.as_ref().map_or(0, |value| {
                        __protocol.list_field_len(
                            Some(32767),
                            ::pilota::thrift::TType::Struct,
                            value,
                            |__protocol, el| __protocol.struct_len(el),
                        )
                    })
                    + self._unknown_fields.size()
                    + __protocol.field_stop_len()
                    + __protocol.struct_end_len()
            }
        }
        #[derive(PartialOrd, Hash, Eq, Ord, Debug, Default, Clone, PartialEq)]
        pub struct MutB {
            pub a: ::std::option::Option<::std::boxed::Box<MutA>>,

            pub y: ::std::option::Option<bool>,
            pub _unknown_fields: ::pilota::LinkedBytes,
        }
        impl ::pilota::thrift::Message for MutB {
            fn encode<T: ::pilota::thrift::TOutputProtocol>(
                &self,
                __protocol: &mut T,
            ) -> ::std::result::Result<(), ::pilota::thrift::ThriftException> {
                #[allow(unused_imports)]
                use ::pilota::thrift::TOutputProtocolExt;
                let struct_ident = ::pilota::thrift::TStructIdentifier { name: "MutB" };

                __protocol.write_struct_begin(&struct_ident)?;
                if let Some(value) = self.a.as_ref() {
                    __protocol.write_struct_field(1, value, ::pilota::thrift::TType::Struct)?;
                }
                if let Some(value) = self.y.as_ref() {
                    __protocol.write_bool_field(3, *value)?;
                }
                for bytes in self._unknown_fields.list.iter() {
                    __protocol.write_bytes_without_len(bytes.clone());
                }
                __protocol.write_field_stop()?;
                __protocol.write_struct_end()?;
                ::std::result::Result::Ok(())
            }

            fn decode<T: ::pilota::thrift::TInputProtocol>(
                __protocol: &mut T,
            ) -> ::std::result::Result<Self, ::pilota::thrift::ThriftException> {
                #[allow(unused_imports)]
                use ::pilota::{thrift::TLengthProtocolExt, Buf};

                let mut var_1 = None;
                let mut var_3 = None;
                let mut _unknown_fields = ::pilota::LinkedBytes::new();

                let mut __pilota_decoding_field_id = None;

                __protocol.read_struct_begin()?;
                if let ::std::result::Result::Err(mut err) = (|| {
                    loop {
                        let mut __pilota_offset = 0;
                        let __pilota_begin_ptr = __protocol.buf().chunk().as_ptr();
                        let field_ident = __protocol.read_field_begin()?;
                        if field_ident.field_type == ::pilota::thrift::TType::Stop {
                            __pilota_offset += __protocol.field_stop_len();
                            break;
                        } else {
                            __pilota_offset +=
                                __protocol.field_begin_len(field_ident.field_type, field_ident.id);
                        }
                        __pilota_decoding_field_id = field_ident.id;
                        match field_ident.id {
                            Some(1)
                                if field_ident.field_type == ::pilota::thrift::TType::Struct =>
                            {
                                var_1 = Some(::std::boxed::Box::new(
                                    ::pilota::thrift::Message::decode(__protocol)?,
                                ));
                            }
                            Some(3) if field_ident.field_type == ::pilota::thrift::TType::Bool => {
                                var_3 = Some(__protocol.read_bool()?);
                            }
                            _ => {
                                __pilota_offset += __protocol.skip(field_ident.field_type)?;
                                _unknown_fields.push_back(
                                    __protocol
                                        .get_bytes(Some(__pilota_begin_ptr), __pilota_offset)?,
                                );
                            }
                        }

                        __protocol.read_field_end()?;
                        __pilota_offset += __protocol.field_end_len();
                    }
                    ::std::result::Result::Ok::<_, ::pilota::thrift::ThriftException>(())
                })() {
                    if let Some(field_id) = __pilota_decoding_field_id {
                        err.prepend_msg(&format!(
                            "decode struct `MutB` field(#{}) failed, caused by: ",
                            field_id
                        ));
                    }
                    return ::std::result::Result::Err(err);
                };
                __protocol.read_struct_end()?;

                let data = Self {
                    a: var_1,
                    y: var_3,
                    _unknown_fields,
                };
                ::std::result::Result::Ok(data)
            }

            fn decode_async<'a, T: ::pilota::thrift::TAsyncInputProtocol>(
                __protocol: &'a mut T,
            ) -> ::std::pin::Pin<
                ::std::boxed::Box<
                    dyn ::std::future::Future<
                            Output = ::std::result::Result<Self, ::pilota::thrift::ThriftException>,
                        > + Send
                        + 'a,
                >,
            > {
                ::std::boxed::Box::pin(async move {
                    let mut var_1 = None;
                    let mut var_3 = None;

                    let mut __pilota_decoding_field_id = None;

                    __protocol.read_struct_begin().await?;
                    if let ::std::result::Result::Err(mut err) = async {
                        loop {
                            let field_ident = __protocol.read_field_begin().await?;
                            if field_ident.field_type == ::pilota::thrift::TType::Stop {
                                break;
                            } else {
                            }
                            __pilota_decoding_field_id = field_ident.id;
                            match field_ident.id {
                                Some(1)
                                    if field_ident.field_type
                                        == ::pilota::thrift::TType::Struct =>
                                {
                                    var_1 = Some(::std::boxed::Box::new(
                                        <MutA as ::pilota::thrift::Message>::decode_async(
                                            __protocol,
                                        )
                                        .await?,
                                    ));
                                }
                                Some(3)
                                    if field_ident.field_type == ::pilota::thrift::TType::Bool =>
                                {
                                    var_3 = Some(__protocol.read_bool().await?);
                                }
                                _ => {
                                    __protocol.skip(field_ident.field_type).await?;
                                }
                            }

                            __protocol.read_field_end().await?;
                        }
                        ::std::result::Result::Ok::<_, ::pilota::thrift::ThriftException>(())
                    }
                    .await
                    {
                        if let Some(field_id) = __pilota_decoding_field_id {
                            err.prepend_msg(&format!(
                                "decode struct `MutB` field(#{}) failed, caused by: ",
                                field_id
                            ));
                        }
                        return ::std::result::Result::Err(err);
                    };
                    __protocol.read_struct_end().await?;

                    let data = Self {
                        a: var_1,
                        y: var_3,
                        _unknown_fields: ::pilota::LinkedBytes::new(),
                    };
                    ::std::result::Result::Ok(data)
                })
            }

            fn size<T: ::pilota::thrift::TLengthProtocol>(&self, __protocol: &mut T) -> usize {
                #[allow(unused_imports)]
                use ::pilota::thrift::TLengthProtocolExt;
                __protocol.struct_begin_len(&::pilota::thrift::TStructIdentifier { name: "MutB" })
                    + self
                        .a
                        .as_ref()
                        .map_or(0, |value| __protocol.struct_field_len(Some(1), value))
                    + self
                        .y
                        .as_ref()
                        .map_or(0, |value| __protocol.bool_field_len(Some(3), *value))
                    + self._unknown_fields.size()
                    + __protocol.field_stop_len()
                    + __protocol.struct_end_len()
            }
        }
        #[derive(PartialOrd, Hash, Eq, Ord, Debug, Default, Clone, PartialEq)]
        pub struct TdTdStr(pub TdStr);

        impl ::std::ops::Deref for TdTdStr {
            type Target = TdStr;

            fn deref(&self) -> &Self::Target {
                &self.0
            }
        }

        impl From<TdStr> for TdTdStr {
            fn from(v: TdStr) -> Self {
                Self(v)
            }
        }

        impl ::pilota::thrift::Message for TdTdStr {
            fn encode<T: ::pilota::thrift::TOutputProtocol>(
                &self,
                __protocol: &mut T,
            ) -> ::std::result::Result<(), ::pilota::thrift::ThriftException> {
                #[allow(unused_imports)]
                use ::pilota::thrift::TOutputProtocolExt;
                __protocol.write_struct((&**self))?;
                ::std::result::Result::Ok(())
            }

            fn decode<T: ::pilota::thrift::TInputProtocol>(
                __protocol: &mut T,
            ) -> ::std::result::Result<Self, ::pilota::thrift::ThriftException> {
                #[allow(unused_imports)]
                use ::pilota::{thrift::TLengthProtocolExt, Buf};
                ::std::result::Result::Ok(TdTdStr(::pilota::thrift::Message::decode(__protocol)?))
            }

            fn decode_async<'a, T: ::pilota::thrift::TAsyncInputProtocol>(
                __protocol: &'a mut T,
            ) -> ::std::pin::Pin<
                ::std::boxed::Box<
                    dyn ::std::future::Future<
                            Output = ::std::result::Result<Self, ::pilota::thrift::ThriftException>,
                        > + Send
                        + 'a,
                >,
            > {
                ::std::boxed::Box::pin(async move {
                    ::std::result::Result::Ok(TdTdStr(
                        <TdStr as ::pilota::thrift::Message>::decode_async(__protocol).await?,
                    ))
                })
            }

            fn size<T: ::pilota::thrift::TLengthProtocol>(&self, __protocol: &mut T) -> usize {
                #[allow(unused_imports)]
                use ::pilota::thrift::TLengthProtocolExt;
                __protocol.struct_len(&**self)
            }
        }
        impl ::std::default::Default for S0x6 {
            fn default() -> Self {
                S0x6 {
                    f1: ::std::default::Default::default(),
                    f2: ::std::default::Default::default(),
                    f3: Some(true),
                    _unknown_fields: ::pilota::LinkedBytes::new(),
                }
            }
        }
        #[derive(PartialOrd, Debug, Clone, PartialEq)]
        pub struct S0x6 {
            pub f1: ::std::option::Option<::std::vec::Vec<::std::sync::Arc<Leaf1>>>,

            pub f2: f64,

            pub f3: ::std::option::Option<bool>,
            pub _unknown_fields: ::pilota::LinkedBytes,
        }
        impl ::pilota::thrift::Message for S0x6 {
            fn encode<T: ::pilota::thrift::TOutputProtocol>(
                &self,
                __protocol: &mut T,
            ) -> ::std::result::Result<(), ::pilota::thrift::ThriftException> {
                #[allow(unused_imports)]
                use ::pilota::thrift::TOutputProtocolExt;
                let struct_ident = ::pilota::thrift::TStructIdentifier { name: "S0x6" };

                __protocol.write_struct_begin(&struct_ident)?;
                if let Some(value) = self.f1.as_ref() {
                    __protocol.write_list_field(
                        1,
                        ::pilota::thrift::TType::Struct,
                        &value,
                        |__protocol, val| {
                            __protocol.write_struct(val)?;
                            ::std::result::Result::Ok(())
                        },
                    )?;
                }
                __protocol.write_double_field(2, *&self.f2)?;
                if let Some(value) = self.f3.as_ref() {
                    __protocol.write_bool_field(3, *value)?;
                }
                for bytes in self._unknown_fields.list.iter() {
                    __protocol.write_bytes_without_len(bytes.clone());
                }
                __protocol.write_field_stop()?;
                __protocol.write_struct_end()?;
                ::std::result::Result::Ok(())
            }

            fn decode<T: ::pilota::thrift::TInputProtocol>(
                __protocol: &mut T,
            ) -> ::std::result::Result<Self, ::pilota::thrift::ThriftException> {
                #[allow(unused_imports)]
                use ::pilota::{thrift::TLengthProtocolExt, Buf};

                let mut var_1 = None;
                let mut var_2 = None;
                let mut var_3 = Some(true);
                let mut _unknown_fields = ::pilota::LinkedBytes::new();

                let mut __pilota_decoding_field_id = None;

                __protocol.read_struct_begin()?;
                if let ::std::result::Result::Err(mut err) = (|| {
                    loop {
                        let mut __pilota_offset = 0;
                        let __pilota_begin_ptr = __protocol.buf().chunk().as_ptr();
                        let field_ident = __protocol.read_field_begin()?;
                        if field_ident.field_type == ::pilota::thrift::TType::Stop {
                            __pilota_offset += __protocol.field_stop_len();
                            break;
                        } else {
                            __pilota_offset +=
                                __protocol.field_begin_len(field_ident.field_type, field_ident.id);
                        }
                        __pilota_decoding_field_id = field_ident.id;
                        match field_ident.id {
                            Some(1) if field_ident.field_type == ::pilota::thrift::TType::List => {
                                var_1 = Some(unsafe {
                                    let list_ident = __protocol.read_list_begin()?;
                                    let mut val: ::std::vec::Vec<::std::sync::Arc<Leaf1>> =
                                        ::std::vec::Vec::with_capacity(list_ident.size);
                                    for i in 0..list_ident.size {
                                        val.as_mut_ptr().offset(i as isize).write(
                                            ::std::sync::Arc::new(
                                                ::pilota::thrift::Message::decode(__protocol)?,
                                            ),
                                        );
                                    }
                                    val.set_len(list_ident.size);
                                    __protocol.read_list_end()?;
                                    val
                                });
                            }
                            Some(2)
                                if field_ident.field_type == ::pilota::thrift::TType::Double =>
                            {
                                var_2 = Some(__protocol.read_double()?);
                            }
                            Some(3) if field_ident.field_type == ::pilota::thrift::TType::Bool => {
                                var_3 = Some(__protocol.read_bool()?);
                            }
                            _ => {
                                __pilota_offset += __protocol.skip(field_ident.field_type)?;
                                _unknown_fields.push_back(
                                    __protocol
                                        .get_bytes(Some(__pilota_begin_ptr), __pilota_offset)?,
                                );
                            }
                        }

                        __protocol.read_field_end()?;
                        __pilota_offset += __protocol.field_end_len();
                    }
                    ::std::result::Result::Ok::<_, ::pilota::thrift::ThriftException>(())
                })() {
                    if let Some(field_id) = __pilota_decoding_field_id {
                        err.prepend_msg(&format!(
                            "decode struct `S0x6` field(#{}) failed, caused by: ",
                            field_id
                        ));
                    }
                    return ::std::result::Result::Err(err);
                };
                __protocol.read_struct_end()?;

                let Some(var_2) = var_2 else {
                    return ::std::result::Result::Err(::pilota::thrift::new_protocol_exception(
                        ::pilota::thrift::ProtocolExceptionKind::InvalidData,
                        "field f2 is required".to_string(),
                    ));
                };

                let data = Self {
                    f1: var_1,
                    f2: var_2,
                    f3: var_3,
                    _unknown_fields,
                };
                ::std::result::Result::Ok(data)
            }

            fn decode_async<'a, T: ::pilota::thrift::TAsyncInputProtocol>(
                __protocol: &'a mut T,
            ) -> ::std::pin::Pin<
                ::std::boxed::Box<
                    dyn ::std::future::Future<
                            Output = ::std::result::Result<Self, ::pilota::thrift::ThriftException>,
                        > + Send
                        + 'a,
                >,
            > {
                ::std::boxed::Box::pin(async move {
                    let mut var_1 = None;
                    let mut var_2 = None;
                    let mut var_3 = Some(true);

                    let mut __pilota_decoding_field_id = None;

                    __protocol.read_struct_begin().await?;
                    if let ::std::result::Result::Err(mut err) = async {
                        loop {
                            let field_ident = __protocol.read_field_begin().await?;
                            if field_ident.field_type == ::pilota::thrift::TType::Stop {
                                break;
                            } else {
                            }
                            __pilota_decoding_field_id = field_ident.id;
                            match field_ident.id {
                                Some(1)
                                    if field_ident.field_type == ::pilota::thrift::TType::List =>
                                {
                                    var_1 = Some({
                                        let list_ident = __protocol.read_list_begin().await?;
                                        let mut val =
                                            ::std::vec::Vec::with_capacity(list_ident.size);
                                        for _ in 0..list_ident.size {
                                            val.push(::std::sync::Arc::new(
                                                <Leaf1 as ::pilota::thrift::Message>::decode_async(
                                                    __protocol,
                                                )
                                                .await?,
                                            ));
                                        }
                                        __protocol.read_list_end().await?;
                                        val
                                    });
                                }
                                Some(2)
                                    if field_ident.field_type
                                        == ::pilota::thrift::TType::Double =>
                                {
                                    var_2 = Some(__protocol.read_double().await?);
                                }
                                Some(3)
                                    if field_ident.field_type == ::pilota::thrift::TType::Bool =>
                                {
                                    var_3 = Some(__protocol.read_bool().await?);
                                }
                                _ => {
                                    __protocol.skip(field_ident.field_type).await?;
                                }
                            }

                            __protocol.read_field_end().await?;
                        }
                        ::std::result::Result::Ok::<_, ::pilota::thrift::ThriftException>(())
                    }
                    .await
                    {
                        if let Some(field_id) = __pilota_decoding_field_id {
                            err.prepend_msg(&format!(
                                "decode struct `S0x6` field(#{}) failed, caused by: ",
                                field_id
                            ));
                        }
                        return ::std::result::Result::Err(err);
                    };
                    __protocol.read_struct_end().await?;

                    let Some(var_2) = var_2 else {
                        return ::std::result::Result::Err(
                            ::pilota::thrift::new_protocol_exception(
                                ::pilota::thrift::ProtocolExceptionKind::InvalidData,
                                "field f2 is required".to_string(),
                            ),
                        );
                    };

                    let data = Self {
                        f1: var_1,
                        f2: var_2,
                        f3: var_3,
                        _unknown_fields: ::pilota::LinkedBytes::new(),
                    };
                    ::std::result::Result::Ok(data)
                })
            }

            fn size<T: ::pilota::thrift::TLengthProtocol>(&self, __protocol: &mut T) -> usize {
                #[allow(unused_imports)]
                use ::pilota::thrift::TLengthProtocolExt;
                __protocol.struct_begin_len(&::pilota::thrift::TStructIdentifier { name: "S0x6" })
                    + self.f1.as_ref().map_or(0, |value| {
                        __protocol.list_field_len(
                            Some(1),
                            ::pilota::thrift::TType::Struct,
                            value,
                            |__protocol, el| __protocol.struct_len(el),
                        )
                    })
                    + __protocol.double_field_len(Some(2), *&self.f2)
                    + self
                        .f3
                        .as_ref()
                        .map_or(0, |value| __protocol.bool_field_len(Some(3), *value))
                    + self._unknown_fields.size()
                    + __protocol.field_stop_len()
                    + __protocol.struct_end_len()
            }
        }
        #[derive(PartialOrd, Hash, Eq, Ord, Debug, Default, Clone, PartialEq)]
        pub struct Svc0MdArgsSend {
            pub req: Req0,
        }
        impl ::pilota::thrift::Message for Svc0MdArgsSend {
            fn encode<T: ::pilota::thrift::TOutputProtocol>(
                &self,
                __protocol: &mut T,
            ) -> ::std::result::Result<(), ::pilota::thrift::ThriftException> {
                #[allow(unused_imports)]
                use ::pilota::thrift::TOutputProtocolExt;
                let struct_ident = ::pilota::thrift::TStructIdentifier {
                    name: "Svc0MdArgsSend",
                };

                __protocol.write_struct_begin(&struct_ident)?;
                __protocol.write_struct_field(1, &self.req, ::pilota::thrift::TType::Struct)?;
                __protocol.write_field_stop()?;
                __protocol.write_struct_end()?;
                ::std::result::Result::Ok(())
            }

            fn decode<T: ::pilota::thrift::TInputProtocol>(
                __protocol: &mut T,
            ) -> ::std::result::Result<Self, ::pilota::thrift::ThriftException> {
                #[allow(unused_imports)]
                use ::pilota::{thrift::TLengthProtocolExt, Buf};

                let mut var_1 = None;

                let mut __pilota_decoding_field_id = None;

                __protocol.read_struct_begin()?;
                if let ::std::result::Result::Err(mut err) = (|| {
                    loop {
                        let field_ident = __protocol.read_field_begin()?;
                        if field_ident.field_type == ::pilota::thrift::TType::Stop {
                            __protocol.field_stop_len();
                            break;
                        } else {
                            __protocol.field_begin_len(field_ident.field_type, field_ident.id);
                        }
                        __pilota_decoding_field_id = field_ident.id;
                        match field_ident.id {
                            Some(1)
                                if field_ident.field_type == ::pilota::thrift::TType::Struct =>
                            {
                                var_1 = Some(::pilota::thrift::Message::decode(__protocol)?);
                            }
                            _ => {
                                __protocol.skip(field_ident.field_type)?;
                            }
                        }

                        __protocol.read_field_end()?;
                        __protocol.field_end_len();
                    }
                    ::std::result::Result::Ok::<_, ::pilota::thrift::ThriftException>(())
                })() {
                    if let Some(field_id) = __pilota_decoding_field_id {
                        err.prepend_msg(&format!(
                            "decode struct `Svc0MdArgsSend` field(#{}) failed, caused by: ",
                            field_id
                        ));
                    }
                    return ::std::result::Result::Err(err);
                };
                __protocol.read_struct_end()?;

                let Some(var_1) = var_1 else {
                    return ::std::result::Result::Err(::pilota::thrift::new_protocol_exception(
                        ::pilota::thrift::ProtocolExceptionKind::InvalidData,
                        "field req is required".to_string(),
                    ));
                };

                let data = Self { req: var_1 };
                ::std::result::Result::Ok(data)
            }

            fn decode_async<'a, T: ::pilota::thrift::TAsyncInputProtocol>(
                __protocol: &'a mut T,
            ) -> ::std::pin::Pin<
                ::std::boxed::Box<
                    dyn ::std::future::Future<
                            Output = ::std::result::Result<Self, ::pilota::thrift::ThriftException>,
                        > + Send
                        + 'a,
                >,
            > {
                ::std::boxed::Box::pin(async move {
                    let mut var_1 = None;

                    let mut __pilota_decoding_field_id = None;

                    __protocol.read_struct_begin().await?;
                    if let ::std::result::Result::Err(mut err) = async {
                        loop {
                            let field_ident = __protocol.read_field_begin().await?;
                            if field_ident.field_type == ::pilota::thrift::TType::Stop {
                                break;
                            } else {
                            }
                            __pilota_decoding_field_id = field_ident.id;
                            match field_ident.id {
                                Some(1)
                                    if field_ident.field_type
                                        == ::pilota::thrift::TType::Struct =>
                                {
                                    var_1 = Some(
                                        <Req0 as ::pilota::thrift::Message>::decode_async(
                                            __protocol,
                                        )
                                        .await?,
                                    );
                                }
                                _ => {
                                    __protocol.skip(field_ident.field_type).await?;
                                }
                            }

                            __protocol.read_field_end().await?;
                        }
                        ::std::result::Result::Ok::<_, ::pilota::thrift::ThriftException>(())
                    }
                    .await
                    {
                        if let Some(field_id) = __pilota_decoding_field_id {
                            err.prepend_msg(&format!(
                                "decode struct `Svc0MdArgsSend` field(#{}) failed, caused by: ",
                                field_id
                            ));
                        }
                        return ::std::result::Result::Err(err);
                    };
                    __protocol.read_struct_end().await?;

                    let Some(var_1) = var_1 else {
                        return ::std::result::Result::Err(
                            ::pilota::thrift::new_protocol_exception(
                                ::pilota::thrift::ProtocolExceptionKind::InvalidData,
                                "field req is required".to_string(),
                            ),
                        );
                    };

                    let data = Self { req: var_1 };
                    ::std::result::Result::Ok(data)
                })
            }

            fn size<T: ::pilota::thrift::TLengthProtocol>(&self, __protocol: &mut T) -> usize {
                #[allow(unused_imports)]
                use ::pilota::thrift::TLengthProtocolExt;
                __protocol.struct_begin_len(&::pilota::thrift::TStructIdentifier {
                    name: "Svc0MdArgsSend",
                }) + __protocol.struct_field_len(Some(1), &self.req)
                    + __protocol.field_stop_len()
                    + __protocol.struct_end_len()
            }
        }
        #[derive(PartialOrd, Hash, Eq, Ord, Debug, Default, Clone, PartialEq)]
        pub struct TdI32(pub i32);

        impl ::std::ops::Deref for TdI32 {
            type Target = i32;

            fn deref(&self) -> &Self::Target {
                &self.0
            }
        }

        impl From<i32> for TdI32 {
            fn from(v: i32) -> Self {
                Self(v)
            }
        }

        impl ::pilota::thrift::Message for TdI32 {
            fn encode<T: ::pilota::thrift::TOutputProtocol>(
                &self,
                __protocol: &mut T,
            ) -> ::std::result::Result<(), ::pilota::thrift::ThriftException> {
                #[allow(unused_imports)]
                use ::pilota::thrift::TOutputProtocolExt;
                __protocol.write_i32(*(&**self))?;
                ::std::result::Result::Ok(())
            }

            fn decode<T: ::pilota::thrift::TInputProtocol>(
                __protocol: &mut T,
            ) -> ::std::result::Result<Self, ::pilota::thrift::ThriftException> {
                #[allow(unused_imports)]
                use ::pilota::{thrift::TLengthProtocolExt, Buf};
                ::std::result::Result::Ok(TdI32(__protocol.read_i32()?))
            }

            fn decode_async<'a, T: ::pilota::thrift::TAsyncInputProtocol>(
                __protocol: &'a mut T,
            ) -> ::std::pin::Pin<
                ::std::boxed::Box<
                    dyn ::std::future::Future<
                            Output = ::std::result::Result<Self, ::pilota::thrift::ThriftException>,
                        > + Send
                        + 'a,
                >,
            > {
                ::std::boxed::Box::pin(async move {
                    ::std::result::Result::Ok(TdI32(__protocol.read_i32().await?))
                })
            }

            fn size<T: ::pilota::thrift::TLengthProtocol>(&self, __protocol: &mut T) -> usize {
                #[allow(unused_imports)]
                use ::pilota::thrift::TLengthProtocolExt;
                __protocol.i32_len(*&**self)
            }
        }
        #[derive(PartialOrd, Hash, Eq, Ord, Debug, Default, Clone, PartialEq)]
        pub struct Svc0MbArgsSend {
            pub x: ::std::sync::Arc<E1>,

            pub b: bool,
        }
        impl ::pilota::thrift::Message for Svc0MbArgsSend {
            fn encode<T: ::pilota::thrift::TOutputProtocol>(
                &self,
                __protocol: &mut T,
            ) -> ::std::result::Result<(), ::pilota::thrift::ThriftException> {
                #[allow(unused_imports)]
                use ::pilota::thrift::TOutputProtocolExt;
                let struct_ident = ::pilota::thrift::TStructIdentifier {
                    name: "Svc0MbArgsSend",
                };

                __protocol.write_struct_begin(&struct_ident)?;
                __protocol.write_i32_field(1, (&self.x).inner())?;
                __protocol.write_bool_field(3, *&self.b)?;
                __protocol.write_field_stop()?;
                __protocol.write_struct_end()?;
                ::std::result::Result::Ok(())
            }

            fn decode<T: ::pilota::thrift::TInputProtocol>(
                __protocol: &mut T,
            ) -> ::std::result::Result<Self, ::pilota::thrift::ThriftException> {
                #[allow(unused_imports)]
                use ::pilota::{thrift::TLengthProtocolExt, Buf};

                let mut var_1 = None;
                let mut var_3 = None;

                let mut __pilota_decoding_field_id = None;

                __protocol.read_struct_begin()?;
                if let ::std::result::Result::Err(mut err) = (|| {
                    loop {
                        let field_ident = __protocol.read_field_begin()?;
                        if field_ident.field_type == ::pilota::thrift::TType::Stop {
                            __protocol.field_stop_len();
                            break;
                        } else {
                            __protocol.field_begin_len(field_ident.field_type, field_ident.id);
                        }
                        __pilota_decoding_field_id = field_ident.id;
                        match field_ident.id {
                            Some(1) if field_ident.field_type == ::pilota::thrift::TType::I32 => {
                                var_1 = Some(::std::sync::Arc::new(
                                    ::pilota::thrift::Message::decode(__protocol)?,
                                ));
                            }
                            Some(3) if field_ident.field_type == ::pilota::thrift::TType::Bool => {
                                var_3 = Some(__protocol.read_bool()?);
                            }
                            _ => {
                                __protocol.skip(field_ident.field_type)?;
                            }
                        }

                        __protocol.read_field_end()?;
                        __protocol.field_end_len();
                    }
                    ::std::result::Result::Ok::<_, ::pilota::thrift::ThriftException>(())
                })() {
                    if let Some(field_id) = __pilota_decoding_field_id {
                        err.prepend_msg(&format!(
                            "decode struct `Svc0MbArgsSend` field(#{}) failed, caused by: ",
                            field_id
                        ));
                    }
                    return ::std::result::Result::Err(err);
                };
                __protocol.read_struct_end()?;

                let Some(var_1) = var_1 else {
                    return ::std::result::Result::Err(::pilota::thrift::new_protocol_exception(
                        ::pilota::thrift::ProtocolExceptionKind::InvalidData,
                        "field x is required".to_string(),
                    ));
                };
                let Some(var_3) = var_3 else {
                    return ::std::result::Result::Err(::pilota::thrift::new_protocol_exception(
                        ::pilota::thrift::ProtocolExceptionKind::InvalidData,
                        "field b is required".to_string(),
                    ));
                };

                let data = Self { x: var_1, b: var_3 };
                ::std::result::Result::Ok(data)
            }

            fn decode_async<'a, T: ::pilota::thrift::TAsyncInputProtocol>(
                __protocol: &'a mut T,
            ) -> ::std::pin::Pin<
                ::std::boxed::Box<
                    dyn ::std::future::Future<
                            Output = ::std::result::Result<Self, ::pilota::thrift::ThriftException>,
                        > + Send
                        + 'a,
                >,
            > {
                ::std::boxed::Box::pin(async move {
                    let mut var_1 = None;
                    let mut var_3 = None;

                    let mut __pilota_decoding_field_id = None;

                    __protocol.read_struct_begin().await?;
                    if let ::std::result::Result::Err(mut err) = async {
                        loop {
                            let field_ident = __protocol.read_field_begin().await?;
                            if field_ident.field_type == ::pilota::thrift::TType::Stop {
                                break;
                            } else {
                            }
                            __pilota_decoding_field_id = field_ident.id;
                            match field_ident.id {
                                Some(1)
                                    if field_ident.field_type == ::pilota::thrift::TType::I32 =>
                                {
                                    var_1 = Some(::std::sync::Arc::new(
                                        <E1 as ::pilota::thrift::Message>::decode_async(__protocol)
                                            .await?,
                                    ));
                                }
                                Some(3)
                                    if field_ident.field_type == ::pilota::thrift::TType::Bool =>
                                {
                                    var_3 = Some(__protocol.read_bool().await?);
                                }
                                _ => {
                                    __protocol.skip(field_ident.field_type).await?;
                                }
                            }

                            __protocol.read_field_end().await?;
                        }
                        ::std::result::Result::Ok::<_, ::pilota::thrift::ThriftException>(())
                    }
                    .await
                    {
                        if let Some(field_id) = __pilota_decoding_field_id {
                            err.prepend_msg(&format!(
                                "decode struct `Svc0MbArgsSend` field(#{}) failed, caused by: ",
                                field_id
                            ));
                        }
                        return ::std::result::Result::Err(err);
                    };
                    __protocol.read_struct_end().await?;

                    let Some(var_1) = var_1 else {
                        return ::std::result::Result::Err(
                            ::pilota::thrift::new_protocol_exception(
                                ::pilota::thrift::ProtocolExceptionKind::InvalidData,
                                "field x is required".to_string(),
                            ),
                        );
                    };
                    let Some(var_3) = var_3 else {
                        return ::std::result::Result::Err(
                            ::pilota::thrift::new_protocol_exception(
                                ::pilota::thrift::ProtocolExceptionKind::InvalidData,
                                "field b is required".to_string(),
                            ),
                        );
                    };

                    let data = Self { x: var_1, b: var_3 };
                    ::std::result::Result::Ok(data)
                })
            }

            fn size<T: ::pilota::thrift::TLengthProtocol>(&self, __protocol: &mut T) -> usize {
                #[allow(unused_imports)]
                use ::pilota::thrift::TLengthProtocolExt;
                __protocol.struct_begin_len(&::pilota::thrift::TStructIdentifier {
                    name: "Svc0MbArgsSend",
                }) + __protocol.i32_field_len(Some(1), (&self.x).inner())
                    + __protocol.bool_field_len(Some(3), *&self.b)
                    + __protocol.field_stop_len()
                    + __protocol.struct_end_len()
            }
        }
        impl ::std::default::Default for S0x13 {
            fn default() -> Self {
                S0x13 {
                    f1: ::std::default::Default::default(),
                    f2: ::std::default::Default::default(),
                    f3: 2f64,
                    _unknown_fields: ::pilota::LinkedBytes::new(),
                }
            }
        }
        #[derive(Debug, Clone, PartialEq)]
        pub struct S0x13 {
            pub f1: ::pilota::AHashMap<E1, ::pilota::FastStr>,

            pub f2: i16,

            pub f3: f64,
            pub _unknown_fields: ::pilota::LinkedBytes,
        }
        impl ::pilota::thrift::Message for S0x13 {
            fn encode<T: ::pilota::thrift::TOutputProtocol>(
                &self,
                __protocol: &mut T,
            ) -> ::std::result::Result<(), ::pilota::thrift::ThriftException> {
                #[allow(unused_imports)]
                use ::pilota::thrift::TOutputProtocolExt;
                let struct_ident = ::pilota::thrift::TStructIdentifier { name: "S0x13" };

                __protocol.write_struct_begin(&struct_ident)?;
                __protocol.write_map_field(
                    5,
                    ::pilota::thrift::TType::I32,
                    ::pilota::thrift::TType::Binary,
                    &&self.f1,
                    |__protocol, key| {
                        __protocol.write_struct(key)?;
                        ::std::result::Result::Ok(())
                    },
                    |__protocol, val| {
                        __protocol.write_faststr((val).clone())?;
                        ::std::result::Result::Ok(())
                    },
                )?;
                __protocol.write_i16_field(20, *&self.f2)?;
                __protocol.write_double_field(21, *&self.f3)?;
                for bytes in self._unknown_fields.list.iter() {
                    __protocol.write_bytes_without_len(bytes.clone());
                }
                __protocol.write_field_stop()?;
                __protocol.write_struct_end()?;
                ::std::result::Result::Ok(())
            }

            fn decode<T: ::pilota::thrift::TInputProtocol>(
                __protocol: &mut T,
            ) -> ::std::result::Result<Self, ::pilota::thrift::ThriftException> {
                #[allow(unused_imports)]
                use ::pilota::{thrift::TLengthProtocolExt, Buf};

                let mut var_5 = None;
                let mut var_20 = None;
                let mut var_21 = 2f64;
                let mut _unknown_fields = ::pilota::LinkedBytes::new();

                let mut __pilota_decoding_field_id = None;

                __protocol.read_struct_begin()?;
                if let ::std::result::Result::Err(mut err) = (|| {
                    loop {
                        let mut __pilota_offset = 0;
                        let __pilota_begin_ptr = __protocol.buf().chunk().as_ptr();
                        let field_ident = __protocol.read_field_begin()?;
                        if field_ident.field_type == ::pilota::thrift::TType::Stop {
                            __pilota_offset += __protocol.field_stop_len();
                            break;
                        } else {
                            __pilota_offset +=
                                __protocol.field_begin_len(field_ident.field_type, field_ident.id);
                        }
                        __pilota_decoding_field_id = field_ident.id;
                        match field_ident.id {
                            Some(5) if field_ident.field_type == ::pilota::thrift::TType::Map => {
                                var_5 = Some({
                                    let map_ident = __protocol.read_map_begin()?;
                                    let mut val = ::pilota::AHashMap::with_capacity(map_ident.size);
                                    for _ in 0..map_ident.size {
                                        val.insert(
                                            ::pilota::thrift::Message::decode(__protocol)?,
                                            __protocol.read_faststr()?,
                                        );
                                    }
                                    __protocol.read_map_end()?;
                                    val
                                });
                            }
                            Some(20) if field_ident.field_type == ::pilota::thrift::TType::I16 => {
                                var_20 = Some(__protocol.read_i16()?);
                            }
                            Some(21)
                                if field_ident.field_type == ::pilota::thrift::TType::Double =>
                            {
                                var_21 = __protocol.read_double()?;
                            }
                            _ => {
                                __pilota_offset += __protocol.skip(field_ident.field_type)?;
                                _unknown_fields.push_back(
                                    __protocol
                                        .get_bytes(Some(__pilota_begin_ptr), __pilota_offset)?,
                                );
                            }
                        }

                        __protocol.read_field_end()?;
                        __pilota_offset += __protocol.field_end_len();
                    }
                    ::std::result::Result::Ok::<_, ::pilota::thrift::ThriftException>(())
                })() {
                    if let Some(field_id) = __pilota_decoding_field_id {
                        err.prepend_msg(&format!(
                            "decode struct `S0x13` field(#{}) failed, caused by: ",
                            field_id
                        ));
                    }
                    return ::std::result::Result::Err(err);
                };
                __protocol.read_struct_end()?;

                let Some(var_5) = var_5 else {
                    return ::std::result::Result::Err(::pilota::thrift::new_protocol_exception(
                        ::pilota::thrift::ProtocolExceptionKind::InvalidData,
                        "field f1 is required".to_string(),
                    ));
                };
                let Some(var_20) = var_20 else {
                    return ::std::result::Result::Err(::pilota::thrift::new_protocol_exception(
                        ::pilota::thrift::ProtocolExceptionKind::InvalidData,
                        "field f2 is required".to_string(),
                    ));
                };

                let data = Self {
                    f1: var_5,
                    f2: var_20,
                    f3: var_21,
                    _unknown_fields,
                };
                ::std::result::Result::Ok(data)
            }

            fn decode_async<'a, T: ::pilota::thrift::TAsyncInputProtocol>(
                __protocol: &'a mut T,
            ) -> ::std::pin::Pin<
                ::std::boxed::Box<
                    dyn ::std::future::Future<
                            Output = ::std::result::Result<Self, ::pilota::thrift::ThriftException>,
                        > + Send
                        + 'a,
                >,
            > {
                ::std::boxed::Box::pin(async move {
                    let mut var_5 = None;
                    let mut var_20 = None;
                    let mut var_21 = 2f64;

                    let mut __pilota_decoding_field_id = None;

                    __protocol.read_struct_begin().await?;
                    if let ::std::result::Result::Err(mut err) = async {
                        loop {
                            let field_ident = __protocol.read_field_begin().await?;
                            if field_ident.field_type == ::pilota::thrift::TType::Stop {
                                break;
                            } else {
                            }
                            __pilota_decoding_field_id = field_ident.id;
                            match field_ident.id {
                                Some(5)
                                    if field_ident.field_type == ::pilota::thrift::TType::Map =>
                                {
                                    var_5 = Some({
                                        let map_ident = __protocol.read_map_begin().await?;
                                        let mut val =
                                            ::pilota::AHashMap::with_capacity(map_ident.size);
                                        for _ in 0..map_ident.size {
                                            val.insert(
                                                <E1 as ::pilota::thrift::Message>::decode_async(
                                                    __protocol,
                                                )
                                                .await?,
                                                __protocol.read_faststr().await?,
                                            );
                                        }
                                        __protocol.read_map_end().await?;
                                        val
                                    });
                                }
                                Some(20)
                                    if field_ident.field_type == ::pilota::thrift::TType::I16 =>
                                {
                                    var_20 = Some(__protocol.read_i16().await?);
                                }
                                Some(21)
                                    if field_ident.field_type
                                        == ::pilota::thrift::TType::Double =>
                                {
                                    var_21 = __protocol.read_double().await?;
                                }
                                _ => {
                                    __protocol.skip(field_ident.field_type).await?;
                                }
                            }

                            __protocol.read_field_end().await?;
                        }
                        ::std::result::Result::Ok::<_, ::pilota::thrift::ThriftException>(())
                    }
                    .await
                    {
                        if let Some(field_id) = __pilota_decoding_field_id {
                            err.prepend_msg(&format!(
                                "decode struct `S0x13` field(#{}) failed, caused by: ",
                                field_id
                            ));
                        }
                        return ::std::result::Result::Err(err);
                    };
                    __protocol.read_struct_end().await?;

                    let Some(var_5) = var_5 else {
                        return ::std::result::Result::Err(
                            ::pilota::thrift::new_protocol_exception(
                                ::pilota::thrift::ProtocolExceptionKind::InvalidData,
                                "field f1 is required".to_string(),
                            ),
                        );
                    };
                    let Some(var_20) = var_20 else {
                        return ::std::result::Result::Err(
                            ::pilota::thrift::new_protocol_exception(
                                ::pilota::thrift::ProtocolExceptionKind::InvalidData,
                                "field f2 is required".to_string(),
                            ),
                        );
                    };

                    let data = Self {
                        f1: var_5,
                        f2: var_20,
                        f3: var_21,
                        _unknown_fields: ::pilota::LinkedBytes::new(),
                    };
                    ::std::result::Result::Ok(data)
                })
            }

            fn size<T: ::pilota::thrift::TLengthProtocol>(&self, __protocol: &mut T) -> usize {
                #[allow(unused_imports)]
                use ::pilota::thrift::TLengthProtocolExt;
                __protocol.struct_begin_len(&::pilota::thrift::TStructIdentifier { name: "S0x13" })
                    + __protocol.map_field_len(
                        Some(5),
                        ::pilota::thrift::TType::I32,
                        ::pilota::thrift::TType::Binary,
                        &self.f1,
                        |__protocol, key| __protocol.struct_len(key),
                        |__protocol, val| __protocol.faststr_len(val),
                    )
                    + __protocol.i16_field_len(Some(20), *&self.f2)
                    + __protocol.double_field_len(Some(21), *&self.f3)
                    + self._unknown_fields.size()
                    + __protocol.field_stop_len()
                    + __protocol.struct_end_len()
            }
        }
        impl ::std::default::Default for S0x1 {
            fn default() -> Self {
                S0x1 {
                    f1: ::std::default::Default::default(),
                    f2: ::std::default::Default::default(),
                    f3: Some(2f64),
                    _unknown_fields: ::pilota::LinkedBytes::new(),
                }
            }
        }
        #[derive(Debug, Clone, PartialEq)]
        pub struct S0x1 {
            pub f1: ::std::vec::Vec<f64>,

            pub f2: ::std::option::Option<::pilota::AHashMap<Leaf1, i32>>,

            pub f3: ::std::option::Option<f64>,
            pub _unknown_fields: ::pilota::LinkedBytes,
        }
        impl ::pilota::thrift::Message for S0x1 {
            fn encode<T: ::pilota::thrift::TOutputProtocol>(
                &self,
                __protocol: &mut T,
            ) -> ::std::result::Result<(), ::pilota::thrift::ThriftException> {
                #[allow(unused_imports)]
                use ::pilota::thrift::TOutputProtocolExt;
                let struct_ident = ::pilota::thrift::TStructIdentifier { name: "S0x1" };

                __protocol.write_struct_begin(&struct_ident)?;
                __protocol.write_list_field(
                    5,
                    ::pilota::thrift::TType::Double,
                    &&self.f1,
                    |__protocol, val| {
                        __protocol.write_double(*val)?;
                        ::std::result::Result::Ok(())
                    },
                )?;
                if let Some(value) = self.f2.as_ref() {
                    __protocol.write_map_field(
                        20,
                        ::pilota::thrift::TType::Struct,
                        ::pilota::thrift::TType::I32,
                        &value,
                        |__protocol, key| {
                            __protocol.write_struct(key)?;
                            ::std::result::Result::Ok(())
                        },
                        |__protocol, val| {
                            __protocol.write_i32(*val)?;
                            ::std::result::Result::Ok(())
                        },
                    )?;
                }
                if let Some(value) = self.f3.as_ref() {
                    __protocol.write_double_field(21, *value)?;
                }
                for bytes in self._unknown_fields.list.iter() {
                    __protocol.write_bytes_without_len(bytes.clone());
                }
                __protocol.write_field_stop()?;
                __protocol.write_struct_end()?;
                ::std::result::Result::Ok(())
            }

            fn decode<T: ::pilota::thrift::TInputProtocol>(
                __protocol: &mut T,
            ) -> ::std::result::Result<Self, ::pilota::thrift::ThriftException> {
                #[allow(unused_imports)]
                use ::pilota::{thrift::TLengthProtocolExt, Buf};

                let mut var_5 = None;
                let mut var_20 = None;
                let mut var_21 = Some(2f64);
                let mut _unknown_fields = ::pilota::LinkedBytes::new();

                let mut __pilota_decoding_field_id = None;

                __protocol.read_struct_begin()?;
                if let ::std::result::Result::Err(mut err) = (|| {
                    loop {
                        let mut __pilota_offset = 0;
                        let __pilota_begin_ptr = __protocol.buf().chunk().as_ptr();
                        let field_ident = __protocol.read_field_begin()?;
                        if field_ident.field_type == ::pilota::thrift::TType::Stop {
                            __pilota_offset += __protocol.field_stop_len();
                            break;
                        } else {
                            __pilota_offset +=
                                __protocol.field_begin_len(field_ident.field_type, field_ident.id);
                        }
                        __pilota_decoding_field_id = field_ident.id;
                        match field_ident.id {
                            Some(5) if field_ident.field_type == ::pilota::thrift::TType::List => {
                                var_5 = Some(unsafe {
                                    let list_ident = __protocol.read_list_begin()?;
                                    let mut val: ::std::vec::Vec<f64> =
                                        ::std::vec::Vec::with_capacity(list_ident.size);
                                    for i in 0..list_ident.size {
                                        val.as_mut_ptr()
                                            .offset(i as isize)
                                            .write(__protocol.read_double()?);
                                    }
                                    val.set_len(list_ident.size);
                                    __protocol.read_list_end()?;
                                    val
                                });
                            }
                            Some(20) if field_ident.field_type == ::pilota::thrift::TType::Map => {
                                var_20 = Some({
                                    let map_ident = __protocol.read_map_begin()?;
                                    let mut val = ::pilota::AHashMap::with_capacity(map_ident.size);
                                    for _ in 0..map_ident.size {
                                        val.insert(
                                            ::pilota::thrift::Message::decode(__protocol)?,
                                            __protocol.read_i32()?,
                                        );
                                    }
                                    __protocol.read_map_end()?;
                                    val
                                });
                            }
                            Some(21)
                                if field_ident.field_type == ::pilota::thrift::TType::Double =>
                            {
                                var_21 = Some(__protocol.read_double()?);
                            }
                            _ => {
                                __pilota_offset += __protocol.skip(field_ident.field_type)?;
                                _unknown_fields.push_back(
                                    __protocol
                                        .get_bytes(Some(__pilota_begin_ptr), __pilota_offset)?,
                                );
                            }
                        }

                        __protocol.read_field_end()?;
                        __pilota_offset += __protocol.field_end_len();
                    }
                    ::std::result::Result::Ok::<_, ::pilota::thrift::ThriftException>(())
                })() {
                    if let Some(field_id) = __pilota_decoding_field_id {
                        err.prepend_msg(&format!(
                            "decode struct `S0x1` field(#{}) failed, caused by: ",
                            field_id
                        ));
                    }
                    return ::std::result::Result::Err(err);
                };
                __protocol.read_struct_end()?;

                let Some(var_5) = var_5 else {
                    return ::std::result::Result::Err(::pilota::thrift::new_protocol_exception(
                        ::pilota::thrift::ProtocolExceptionKind::InvalidData,
                        "field f1 is required".to_string(),
                    ));
                };

                let data = Self {
                    f1: var_5,
                    f2: var_20,
                    f3: var_21,
                    _unknown_fields,
                };
                ::std::result::Result::Ok(data)
            }

            fn decode_async<'a, T: ::pilota::thrift::TAsyncInputProtocol>(
                __protocol: &'a mut T,
            ) -> ::std::pin::Pin<
                ::std::boxed::Box<
                    dyn ::std::future::Future<
                            Output = ::std::result::Result<Self, ::pilota::thrift::ThriftException>,
                        > + Send
                        + 'a,
                >,
            > {
                ::std::boxed::Box::pin(async move {
                    let mut var_5 = None;
                    let mut var_20 = None;
                    let mut var_21 = Some(2f64);

                    let mut __pilota_decoding_field_id = None;

                    __protocol.read_struct_begin().await?;
                    if let ::std::result::Result::Err(mut err) = async {
                        loop {
                            let field_ident = __protocol.read_field_begin().await?;
                            if field_ident.field_type == ::pilota::thrift::TType::Stop {
                                break;
                            } else {
                            }
                            __pilota_decoding_field_id = field_ident.id;
                            match field_ident.id {
                                Some(5)
                                    if field_ident.field_type == ::pilota::thrift::TType::List =>
                                {
                                    var_5 = Some({
                                        let list_ident = __protocol.read_list_begin().await?;
                                        let mut val =
                                            ::std::vec::Vec::with_capacity(list_ident.size);
                                        for _ in 0..list_ident.size {
                                            val.push(__protocol.read_double().await?);
                                        }
                                        __protocol.read_list_end().await?;
                                        val
                                    });
                                }
                                Some(20)
                                    if field_ident.field_type == ::pilota::thrift::TType::Map =>
                                {
                                    var_20 = Some({
                                        let map_ident = __protocol.read_map_begin().await?;
                                        let mut val =
                                            ::pilota::AHashMap::with_capacity(map_ident.size);
                                        for _ in 0..map_ident.size {
                                            val.insert(
                                                <Leaf1 as ::pilota::thrift::Message>::decode_async(
                                                    __protocol,
                                                )
                                                .await?,
                                                __protocol.read_i32().await?,
                                            );
                                        }
                                        __protocol.read_map_end().await?;
                                        val
                                    });
                                }
                                Some(21)
                                    if field_ident.field_type
                                        == ::pilota::thrift::TType::Double =>
                                {
                                    var_21 = Some(__protocol.read_double().await?);
                                }
                                _ => {
                                    __protocol.skip(field_ident.field_type).await?;
                                }
                            }

                            __protocol.read_field_end().await?;
                        }
                        ::std::result::Result::Ok::<_, ::pilota::thrift::ThriftException>(())
                    }
                    .await
                    {
                        if let Some(field_id) = __pilota_decoding_field_id {
                            err.prepend_msg(&format!(
                                "decode struct `S0x1` field(#{}) failed, caused by: ",
                                field_id
                            ));
                        }
                        return ::std::result::Result::Err(err);
                    };
                    __protocol.read_struct_end().await?;

                    let Some(var_5) = var_5 else {
                        return ::std::result::Result::Err(
                            ::pilota::thrift::new_protocol_exception(
                                ::pilota::thrift::ProtocolExceptionKind::InvalidData,
                                "field f1 is required".to_string(),
                            ),
                        );
                    };

                    let data = Self {
                        f1: var_5,
                        f2: var_20,
                        f3: var_21,
                        _unknown_fields: ::pilota::LinkedBytes::new(),
                    };
                    ::std::result::Result::Ok(data)
                })
            }

            fn size<T: ::pilota::thrift::TLengthProtocol>(&self, __protocol: &mut T) -> usize {
                #[allow(unused_imports)]
                use ::pilota::thrift::TLengthProtocolExt;
                __protocol.struct_begin_len(&::pilota::thrift::TStructIdentifier { name: "S0x1" })
                    + __protocol.list_field_len(
                        Some(5),
                        ::pilota::thrift::TType::Double,
                        &self.f1,
                        |__protocol, el| __protocol.double_len(*el),
                    )
                    + self.f2.as_ref().map_or(0, |value| {
                        __protocol.map_field_len(
                            Some(20),
                            ::pilota::thrift::TType::Struct,
                            ::pilota::thrift::TType::I32,
                            value,
                            |__protocol, key| __protocol.struct_len(key),
                            |__protocol, val| __protocol.i32_len(*val),
                        )
                    })
                    + self
                        .f3
                        .as_ref()
                        .map_or(0, |value| __protocol.double_field_len(Some(21), *value))
                    + self._unknown_fields.size()
                    + __protocol.field_stop_len()
                    + __protocol.struct_end_len()
            }
        }
        #[derive(PartialOrd, Hash, Eq, Ord, Debug, Default, Clone, PartialEq)]
        pub struct Leaf1 {
            pub a: i32,

            pub s: ::std::option::Option<::pilota::FastStr>,

            pub flag: ::std::option::Option<bool>,
            pub _unknown_fields: ::pilota::LinkedBytes,
        }
        impl ::pilota::thrift::Message for Leaf1 {
            fn encode<T: ::pilota::thrift::TOutputProtocol>(
                &self,
                __protocol: &mut T,
            ) -> ::std::result::Result<(), ::pilota::thrift::ThriftException> {
                #[allow(unused_imports)]
                use ::pilota::thrift::TOutputProtocolExt;
                let struct_ident = ::pilota::thrift::TStructIdentifier { name: "Leaf1" };

                __protocol.write_struct_begin(&struct_ident)?;
                __protocol.write_i32_field(1, *&self.a)?;
                if let Some(value) = self.s.as_ref() {
                    __protocol.write_faststr_field(2, (value).clone())?;
                }
                if let Some(value) = self.flag.as_ref() {
                    __protocol.write_bool_field(3, *value)?;
                }
                for bytes in self._unknown_fields.list.iter() {
                    __protocol.write_bytes_without_len(bytes.clone());
                }
                __protocol.write_field_stop()?;
                __protocol.write_struct_end()?;
                ::std::result::Result::Ok(())
            }

            fn decode<T: ::pilota::thrift::TInputProtocol>(
                __protocol: &mut T,
            ) -> ::std::result::Result<Self, ::pilota::thrift::ThriftException> {
                #[allow(unused_imports)]
                use ::pilota::{thrift::TLengthProtocolExt, Buf};

                let mut var_1 = None;
                let mut var_2 = None;
                let mut var_3 = None;
                let mut _unknown_fields = ::pilota::LinkedBytes::new();

                let mut __pilota_decoding_field_id = None;

                __protocol.read_struct_begin()?;
                if let ::std::result::Result::Err(mut err) = (|| {
                    loop {
                        let mut __pilota_offset = 0;
                        let __pilota_begin_ptr = __protocol.buf().chunk().as_ptr();
                        let field_ident = __protocol.read_field_begin()?;
                        if field_ident.field_type == ::pilota::thrift::TType::Stop {
                            __pilota_offset += __protocol.field_stop_len();
                            break;
                        } else {
                            __pilota_offset +=
                                __protocol.field_begin_len(field_ident.field_type, field_ident.id);
                        }
                        __pilota_decoding_field_id = field_ident.id;
                        match field_ident.id {
                            Some(1) if field_ident.field_type == ::pilota::thrift::TType::I32 => {
                                var_1 = Some(__protocol.read_i32()?);
                            }
                            Some(2)
                                if field_ident.field_type == ::pilota::thrift::TType::Binary =>
                            {
                                var_2 = Some(__protocol.read_faststr()?);
                            }
                            Some(3) if field_ident.field_type == ::pilota::thrift::TType::Bool => {
                                var_3 = Some(__protocol.read_bool()?);
                            }
                            _ => {
                                __pilota_offset += __protocol.skip(field_ident.field_type)?;
                                _unknown_fields.push_back(
                                    __protocol
                                        .get_bytes(Some(__pilota_begin_ptr), __pilota_offset)?,
                                );
                            }
                        }

                        __protocol.read_field_end()?;
                        __pilota_offset += __protocol.field_end_len();
                    }
                    ::std::result::Result::Ok::<_, ::pilota::thrift::ThriftException>(())
                })() {
                    if let Some(field_id) = __pilota_decoding_field_id {
                        err.prepend_msg(&format!(
                            "decode struct `Leaf1` field(#{}) failed, caused by: ",
                            field_id
                        ));
                    }
                    return ::std::result::Result::Err(err);
                };
                __protocol.read_struct_end()?;

                let Some(var_1) = var_1 else {
                    return ::std::result::Result::Err(::pilota::thrift::new_protocol_exception(
                        ::pilota::thrift::ProtocolExceptionKind::InvalidData,
                        "field a is required".to_string(),
                    ));
                };

                let data = Self {
                    a: var_1,
                    s: var_2,
                    flag: var_3,
                    _unknown_fields,
                };
                ::std::result::Result::Ok(data)
            }

            fn decode_async<'a, T: ::pilota::thrift::TAsyncInputProtocol>(
                __protocol: &'a mut T,
            ) -> ::std::pin::Pin<
                ::std::boxed::Box<
                    dyn ::std::future::Future<
                            Output = ::std::result::Result<Self, ::pilota::thrift::ThriftException>,
                        > + Send
                        + 'a,
                >,
            > {
                ::std::boxed::Box::pin(async move {
                    let mut var_1 = None;
                    let mut var_2 = None;
                    let mut var_3 = None;

                    let mut __pilota_decoding_field_id = None;

                    __protocol.read_struct_begin().await?;
                    if let ::std::result::Result::Err(mut err) = async {
                        loop {
                            let field_ident = __protocol.read_field_begin().await?;
                            if field_ident.field_type == ::pilota::thrift::TType::Stop {
                                break;
                            } else {
                            }
                            __pilota_decoding_field_id = field_ident.id;
                            match field_ident.id {
                                Some(1)
                                    if field_ident.field_type == ::pilota::thrift::TType::I32 =>
                                {
                                    var_1 = Some(__protocol.read_i32().await?);
                                }
                                Some(2)
                                    if field_ident.field_type
                                        == ::pilota::thrift::TType::Binary =>
                                {
                                    var_2 = Some(__protocol.read_faststr().await?);
                                }
                                Some(3)
                                    if field_ident.field_type == ::pilota::thrift::TType::Bool =>
                                {
                                    var_3 = Some(__protocol.read_bool().await?);
                                }
                                _ => {
                                    __protocol.skip(field_ident.field_type).await?;
                                }
                            }

                            __protocol.read_field_end().await?;
                        }
                        ::std::result::Result::Ok::<_, ::pilota::thrift::ThriftException>(())
                    }
                    .await
                    {
                        if let Some(field_id) = __pilota_decoding_field_id {
                            err.prepend_msg(&format!(
                                "decode struct `Leaf1` field(#{}) failed, caused by: ",
                                field_id
                            ));
                        }
                        return ::std::result::Result::Err(err);
                    };
                    __protocol.read_struct_end().await?;

                    let Some(var_1) = var_1 else {
                        return ::std::result::Result::Err(
                            ::pilota::thrift::new_protocol_exception(
                                ::pilota::thrift::ProtocolExceptionKind::InvalidData,
                                "field a is required".to_string(),
                            ),
                        );
                    };

                    let data = Self {
                        a: var_1,
                        s: var_2,
                        flag: var_3,
                        _unknown_fields: ::pilota::LinkedBytes::new(),
                    };
                    ::std::result::Result::Ok(data)
                })
            }

            fn size<T: ::pilota::thrift::TLengthProtocol>(&self, __protocol: &mut T) -> usize {
                #[allow(unused_imports)]
                use ::pilota::thrift::TLengthProtocolExt;
                __protocol.struct_begin_len(&::pilota::thrift::TStructIdentifier { name: "Leaf1" })
                    + __protocol.i32_field_len(Some(1), *&self.a)
                    + self
                        .s
                        .as_ref()
                        .map_or(0, |value| __protocol.faststr_field_len(Some(2), value))
                    + self
                        .flag
                        .as_ref()
                        .map_or(0, |value| __protocol.bool_field_len(Some(3), *value))
                    + self._unknown_fields.size()
                    + __protocol.field_stop_len()
                    + __protocol.struct_end_len()
            }
        }
        #[derive(PartialOrd, Hash, Eq, Ord, Debug, Default, Clone, PartialEq)]
        pub struct Svc0McArgsRecv {}
        impl ::pilota::thrift::Message for Svc0McArgsRecv {
            fn encode<T: ::pilota::thrift::TOutputProtocol>(
                &self,
                __protocol: &mut T,
            ) -> ::std::result::Result<(), ::pilota::thrift::ThriftException> {
                #[allow(unused_imports)]
                use ::pilota::thrift::TOutputProtocolExt;
                let struct_ident = ::pilota::thrift::TStructIdentifier {
                    name: "Svc0McArgsRecv",
                };

                __protocol.write_struct_begin(&struct_ident)?;

                __protocol.write_field_stop()?;
                __protocol.write_struct_end()?;
                ::std::result::Result::Ok(())
            }

            fn decode<T: ::pilota::thrift::TInputProtocol>(
                __protocol: &mut T,
            ) -> ::std::result::Result<Self, ::pilota::thrift::ThriftException> {
                #[allow(unused_imports)]
                use ::pilota::{thrift::TLengthProtocolExt, Buf};

                let mut __pilota_decoding_field_id = None;

                __protocol.read_struct_begin()?;
                if let ::std::result::Result::Err(mut err) = (|| {
                    loop {
                        let field_ident = __protocol.read_field_begin()?;
                        if field_ident.field_type == ::pilota::thrift::TType::Stop {
                            __protocol.field_stop_len();
                            break;
                        } else {
                            __protocol.field_begin_len(field_ident.field_type, field_ident.id);
                        }
                        __pilota_decoding_field_id = field_ident.id;
                        match field_ident.id {
                            _ => {
                                __protocol.skip(field_ident.field_type)?;
                            }
                        }

                        __protocol.read_field_end()?;
                        __protocol.field_end_len();
                    }
                    ::std::result::Result::Ok::<_, ::pilota::thrift::ThriftException>(())
                })() {
                    if let Some(field_id) = __pilota_decoding_field_id {
                        err.prepend_msg(&format!(
                            "decode struct `Svc0McArgsRecv` field(#{}) failed, caused by: ",
                            field_id
                        ));
                    }
                    return ::std::result::Result::Err(err);
                };
                __protocol.read_struct_end()?;

                let data = Self {};
                ::std::result::Result::Ok(data)
            }

            fn decode_async<'a, T: ::pilota::thrift::TAsyncInputProtocol>(
                __protocol: &'a mut T,
            ) -> ::std::pin::Pin<
                ::std::boxed::Box<
                    dyn ::std::future::Future<
                            Output = ::std::result::Result<Self, ::pilota::thrift::ThriftException>,
                        > + Send
                        + 'a,
                >,
            > {
                ::std::boxed::Box::pin(async move {
                    let mut __pilota_decoding_field_id = None;

                    __protocol.read_struct_begin().await?;
                    if let ::std::result::Result::Err(mut err) = async {
                        loop {
                            let field_ident = __protocol.read_field_begin().await?;
                            if field_ident.field_type == ::pilota::thrift::TType::Stop {
                                break;
                            } else {
                            }
                            __pilota_decoding_field_id = field_ident.id;
                            match field_ident.id {
                                _ => {
                                    __protocol.skip(field_ident.field_type).await?;
                                }
                            }

                            __protocol.read_field_end().await?;
                        }
                        ::std::result::Result::Ok::<_, ::pilota::thrift::ThriftException>(())
                    }
                    .await
                    {
                        if let Some(field_id) = __pilota_decoding_field_id {
                            err.prepend_msg(&format!(
                                "decode struct `Svc0McArgsRecv` field(#{}) failed, caused by: ",
                                field_id
                            ));
                        }
                        return ::std::result::Result::Err(err);
                    };
                    __protocol.read_struct_end().await?;

                    let data = Self {};
                    ::std::result::Result::Ok(data)
                })
            }

            fn size<T: ::pilota::thrift::TLengthProtocol>(&self, __protocol: &mut T) -> usize {
                #[allow(unused_imports)]
                use ::pilota::thrift::TLengthProtocolExt;
                __protocol.struct_begin_len(&::pilota::thrift::TStructIdentifier {
                    name: "Svc0McArgsRecv",
                }) + __protocol.field_stop_len()
                    + __protocol.struct_end_len()
            }
        }
        #[derive(Debug, Default, Clone, PartialEq)]
        pub struct Svc0MaArgsRecv {
            pub req: Outer0,

            pub n: ::std::option::Option<i32>,
        }
        impl ::pilota::thrift::Message for Svc0MaArgsRecv {
            fn encode<T: ::pilota::thrift::TOutputProtocol>(
                &self,
                __protocol: &mut T,
            ) -> ::std::result::Result<(), ::pilota::thrift::ThriftException> {
                #[allow(unused_imports)]
                use ::pilota::thrift::TOutputProtocolExt;
                let struct_ident = ::pilota::thrift::TStructIdentifier {
                    name: "Svc0MaArgsRecv",
                };

                __protocol.write_struct_begin(&struct_ident)?;
                __protocol.write_struct_field(1, &self.req, ::pilota::thrift::TType::Struct)?;
                if let Some(value) = self.n.as_ref() {
                    __protocol.write_i32_field(2, *value)?;
                }
                __protocol.write_field_stop()?;
                __protocol.write_struct_end()?;
                ::std::result::Result::Ok(())
            }

            fn decode<T: ::pilota::thrift::TInputProtocol>(
                __protocol: &mut T,
            ) -> ::std::result::Result<Self, ::pilota::thrift::ThriftException> {
                #[allow(unused_imports)]
                use ::pilota::{thrift::TLengthProtocolExt, Buf};

                let mut var_1 = None;
                let mut var_2 = None;

                let mut __pilota_decoding_field_id = None;

                __protocol.read_struct_begin()?;
                if let ::std::result::Result::Err(mut err) = (|| {
                    loop {
                        let field_ident = __protocol.read_field_begin()?;
                        if field_ident.field_type == ::pilota::thrift::TType::Stop {
                            __protocol.field_stop_len();
                            break;
                        } else {
                            __protocol.field_begin_len(field_ident.field_type, field_ident.id);
                        }
                        __pilota_decoding_field_id = field_ident.id;
                        match field_ident.id {
                            Some(1)
                                if field_ident.field_type == ::pilota::thrift::TType::Struct =>
                            {
                                var_1 = Some(::pilota::thrift::Message::decode(__protocol)?);
                            }
                            Some(2) if field_ident.field_type == ::pilota::thrift::TType::I32 => {
                                var_2 = Some(__protocol.read_i32()?);
                            }
                            _ => {
                                __protocol.skip(field_ident.field_type)?;
                            }
                        }

                        __protocol.read_field_end()?;
                        __protocol.field_end_len();
                    }
                    ::std::result::Result::Ok::<_, ::pilota::thrift::ThriftException>(())
                })() {
                    if let Some(field_id) = __pilota_decoding_field_id {
                        err.prepend_msg(&format!(
                            "decode struct `Svc0MaArgsRecv` field(#{}) failed, caused by: ",
                            field_id
                        ));
                    }
                    return ::std::result::Result::Err(err);
                };
                __protocol.read_struct_end()?;

                let Some(var_1) = var_1 else {
                    return ::std::result::Result::Err(::pilota::thrift::new_protocol_exception(
                        ::pilota::thrift::ProtocolExceptionKind::InvalidData,
                        "field req is required".to_string(),
                    ));
                };

                let data = Self {
                    req: var_1,
                    n: var_2,
                };
                ::std::result::Result::Ok(data)
            }

            fn decode_async<'a, T: ::pilota::thrift::TAsyncInputProtocol>(
                __protocol: &'a mut T,
            ) -> ::std::pin::Pin<
                ::std::boxed::Box<
                    dyn ::std::future::Future<
                            Output = ::std::result::Result<Self, ::pilota::thrift::ThriftException>,
                        > + Send
                        + 'a,
                >,
            > {
                ::std::boxed::Box::pin(async move {
                    let mut var_1 = None;
                    let mut var_2 = None;

                    let mut __pilota_decoding_field_id = None;

                    __protocol.read_struct_begin().await?;
                    if let ::std::result::Result::Err(mut err) = async {
                        loop {
                            let field_ident = __protocol.read_field_begin().await?;
                            if field_ident.field_type == ::pilota::thrift::TType::Stop {
                                break;
                            } else {
                            }
                            __pilota_decoding_field_id = field_ident.id;
                            match field_ident.id {
                                Some(1)
                                    if field_ident.field_type
                                        == ::pilota::thrift::TType::Struct =>
                                {
                                    var_1 = Some(
                                        <Outer0 as ::pilota::thrift::Message>::decode_async(
                                            __protocol,
                                        )
                                        .await?,
                                    );
                                }
                                Some(2)
                                    if field_ident.field_type == ::pilota::thrift::TType::I32 =>
                                {
                                    var_2 = Some(__protocol.read_i32().await?);
                                }
                                _ => {
                                    __protocol.skip(field_ident.field_type).await?;
                                }
                            }

                            __protocol.read_field_end().await?;
                        }
                        ::std::result::Result::Ok::<_, ::pilota::thrift::ThriftException>(())
                    }
                    .await
                    {
                        if let Some(field_id) = __pilota_decoding_field_id {
                            err.prepend_msg(&format!(
                                "decode struct `Svc0MaArgsRecv` field(#{}) failed, caused by: ",
                                field_id
                            ));
                        }
                        return ::std::result::Result::Err(err);
                    };
                    __protocol.read_struct_end().await?;

                    let Some(var_1) = var_1 else {
                        return ::std::result::Result::Err(
                            ::pilota::thrift::new_protocol_exception(
                                ::pilota::thrift::ProtocolExceptionKind::InvalidData,
                                "field req is required".to_string(),
                            ),
                        );
                    };

                    let data = Self {
                        req: var_1,
                        n: var_2,
                    };
                    ::std::result::Result::Ok(data)
                })
            }

            fn size<T: ::pilota::thrift::TLengthProtocol>(&self, __protocol: &mut T) -> usize {
                #[allow(unused_imports)]
                use ::pilota::thrift::TLengthProtocolExt;
                __protocol.struct_begin_len(&::pilota::thrift::TStructIdentifier {
                    name: "Svc0MaArgsRecv",
                }) + __protocol.struct_field_len(Some(1), &self.req)
                    + self
                        .n
                        .as_ref()
                        .map_or(0, |value| __protocol.i32_field_len(Some(2), *value))
                    + __protocol.field_stop_len()
                    + __protocol.struct_end_len()
            }
        }
        #[derive(Debug, Default, Clone, PartialEq)]
        pub struct S0x8 {
            pub f1: ::std::vec::Vec<i64>,

            pub f2: ::std::option::Option<::pilota::Bytes>,

            pub f3: ::std::option::Option<::pilota::AHashMap<i32, ::pilota::FastStr>>,
            pub _unknown_fields: ::pilota::LinkedBytes,
        }
        impl ::pilota::thrift::Message for S0x8 {
            fn encode<T: ::pilota::thrift::TOutputProtocol>(
                &self,
                __protocol: &mut T,
            ) -> ::std::result::Result<(), ::pilota::thrift::ThriftException> {
                #[allow(unused_imports)]
                use ::pilota::thrift::TOutputProtocolExt;
                let struct_ident = ::pilota::thrift::TStructIdentifier { name: "S0x8" };

                __protocol.write_struct_begin(&struct_ident)?;
                __protocol.write_list_field(
                    1,
                    ::pilota::thrift::TType::I64,
                    &&self.f1,
                    |__protocol, val| {
                        __protocol.write_i64(*val)?;
                        ::std::result::Result::Ok(())
                    },
                )?;
                if let Some(value) = self.f2.as_ref() {
                    __protocol.write_bytes_field(2, (value).clone())?;
                }
                if let Some(value) = self.f3.as_ref() {
                    __protocol.write_map_field(
                        32767,
                        ::pilota::thrift::TType::I32,
                        ::pilota::thrift::TType::Binary,
                        &value,
                        |__protocol, key| {
                            __protocol.write_i32(*key)?;
                            ::std::result::Result::Ok(())
                        },
                        |__protocol, val| {
                            __protocol.write_faststr((val).clone())?;
                            ::std::result::Result::Ok(())
                        },
                    )?;
                }
                for bytes in self._unknown_fields.list.iter() {
                    __protocol.write_bytes_without_len(bytes.clone());
                }
                __protocol.write_field_stop()?;
                __protocol.write_struct_end()?;
                ::std::result::Result::Ok(())
            }

            fn decode<T: ::pilota::thrift::TInputProtocol>(
                __protocol: &mut T,
            ) -> ::std::result::Result<Self, ::pilota::thrift::ThriftException> {
                #[allow(unused_imports)]
                use ::pilota::{thrift::TLengthProtocolExt, Buf};

                let mut var_1 = None;
                let mut var_2 = None;
                let mut var_32767 = None;
                let mut _unknown_fields = ::pilota::LinkedBytes::new();

                let mut __pilota_decoding_field_id = None;

                __protocol.read_struct_begin()?;
                if let ::std::result::Result::Err(mut err) = (|| {
                    loop {
                        let mut __pilota_offset = 0;
                        let __pilota_begin_ptr = __protocol.buf().chunk().as_ptr();
                        let field_ident = __protocol.read_field_begin()?;
                        if field_ident.field_type == ::pilota::thrift::TType::Stop {
                            __pilota_offset += __protocol.field_stop_len();
                            break;
                        } else {
                            __pilota_offset +=
                                __protocol.field_begin_len(field_ident.field_type, field_ident.id);
                        }
                        __pilota_decoding_field_id = field_ident.id;
                        match field_ident.id {
                            Some(1) if field_ident.field_type == ::pilota::thrift::TType::List => {
                                var_1 = Some(unsafe {
                                    let list_ident = __protocol.read_list_begin()?;
                                    let mut val: ::std::vec::Vec<i64> =
                                        ::std::vec::Vec::with_capacity(list_ident.size);
                                    for i in 0..list_ident.size {
                                        val.as_mut_ptr()
                                            .offset(i as isize)
                                            .write(__protocol.read_i64()?);
                                    }
                                    val.set_len(list_ident.size);
                                    __protocol.read_list_end()?;
                                    val
                                });
                            }
                            Some(2)
                                if field_ident.field_type == ::pilota::thrift::TType::Binary =>
                            {
                                var_2 = Some(__protocol.read_bytes()?);
                            }
                            Some(32767)
                                if field_ident.field_type == ::pilota::thrift::TType::Map =>
                            {
                                var_32767 = Some({
                                    let map_ident = __protocol.read_map_begin()?;
                                    let mut val = ::pilota::AHashMap::with_capacity(map_ident.size);
                                    for _ in 0..map_ident.size {
                                        val.insert(
                                            __protocol.read_i32()?,
                                            __protocol.read_faststr()?,
                                        );
                                    }
                                    __protocol.read_map_end()?;
                                    val
                                });
                            }
                            _ => {
                                __pilota_offset += __protocol.skip(field_ident.field_type)?;
                                _unknown_fields.push_back(
                                    __protocol
                                        .get_bytes(Some(__pilota_begin_ptr), __pilota_offset)?,
                                );
                            }
                        }

                        __protocol.read_field_end()?;
                        __pilota_offset += __protocol.field_end_len();
                    }
                    ::std::result::Result::Ok::<_, ::pilota::thrift::ThriftException>(())
                })() {
                    if let Some(field_id) = __pilota_decoding_field_id {
                        err.prepend_msg(&format!(
                            "decode struct `S0x8` field(#{}) failed, caused by: ",
                            field_id
                        ));
                    }
                    return ::std::result::Result::Err(err);
                };
                __protocol.read_struct_end()?;

                let Some(var_1) = var_1 else {
                    return ::std::result::Result::Err(::pilota::thrift::new_protocol_exception(
                        ::pilota::thrift::ProtocolExceptionKind::InvalidData,
                        "field f1 is required".to_string(),
                    ));
                };

                let data = Self {
                    f1: var_1,
                    f2: var_2,
                    f3: var_32767,
                    _unknown_fields,
                };
                ::std::result::Result::Ok(data)
            }

            fn decode_async<'a, T: ::pilota::thrift::TAsyncInputProtocol>(
                __protocol: &'a mut T,
            ) -> ::std::pin::Pin<
                ::std::boxed::Box<
                    dyn ::std::future::Future<
                            Output = ::std::result::Result<Self, ::pilota::thrift::ThriftException>,
                        > + Send
                        + 'a,
                >,
            > {
                ::std::boxed::Box::pin(async move {
                    let mut var_1 = None;
                    let mut var_2 = None;
                    let mut var_32767 = None;

                    let mut __pilota_decoding_field_id = None;

                    __protocol.read_struct_begin().await?;
                    if let ::std::result::Result::Err(mut err) = async {
                        loop {
                            let field_ident = __protocol.read_field_begin().await?;
                            if field_ident.field_type == ::pilota::thrift::TType::Stop {
                                break;
                            } else {
                            }
                            __pilota_decoding_field_id = field_ident.id;
                            match field_ident.id {
                                Some(1)
                                    if field_ident.field_type == ::pilota::thrift::TType::List =>
                                {
                                    var_1 = Some({
                                        let list_ident = __protocol.read_list_begin().await?;
                                        let mut val =
                                            ::std::vec::Vec::with_capacity(list_ident.size);
                                        for _ in 0..list_ident.size {
                                            val.push(__protocol.read_i64().await?);
                                        }
                                        __protocol.read_list_end().await?;
                                        val
                                    });
                                }
                                Some(2)
                                    if field_ident.field_type
                                        == ::pilota::thrift::TType::Binary =>
                                {
                                    var_2 = Some(__protocol.read_bytes().await?);
                                }
                                Some(32767)
                                    if field_ident.field_type == ::pilota::thrift::TType::Map =>
                                {
                                    var_32767 = Some({
                                        let map_ident = __protocol.read_map_begin().await?;
                                        let mut val =
                                            ::pilota::AHashMap::with_capacity(map_ident.size);
                                        for _ in 0..map_ident.size {
                                            val.insert(
                                                __protocol.read_i32().await?,
                                                __protocol.read_faststr().await?,
                                            );
                                        }
                                        __protocol.read_map_end().await?;
                                        val
                                    });
                                }
                                _ => {
                                    __protocol.skip(field_ident.field_type).await?;
                                }
                            }

                            __protocol.read_field_end().await?;
                        }
                        ::std::result::Result::Ok::<_, ::pilota::thrift::ThriftException>(())
                    }
                    .await
                    {
                        if let Some(field_id) = __pilota_decoding_field_id {
                            err.prepend_msg(&format!(
                                "decode struct `S0x8` field(#{}) failed, caused by: ",
                                field_id
                            ));
                        }
                        return ::std::result::Result::Err(err);
                    };
                    __protocol.read_struct_end().await?;

                    let Some(var_1) = var_1 else {
                        return ::std::result::Result::Err(
                            ::pilota::thrift::new_protocol_exception(
                                ::pilota::thrift::ProtocolExceptionKind::InvalidData,
                                "field f1 is required".to_string(),
                            ),
                        );
                    };

                    let data = Self {
                        f1: var_1,
                        f2: var_2,
                        f3: var_32767,
                        _unknown_fields: ::pilota::LinkedBytes::new(),
                    };
                    ::std::result::Result::Ok(data)
                })
            }

            fn size<T: ::pilota::thrift::TLengthProtocol>(&self, __protocol: &mut T) -> usize {
                #[allow(unused_imports)]
                use ::pilota::thrift::TLengthProtocolExt;
                __protocol.struct_begin_len(&::pilota::thrift::TStructIdentifier { name: "S0x8" })
                    + __protocol.list_field_len(
                        Some(1),
                        ::pilota::thrift::TType::I64,
                        &self.f1,
                        |__protocol, el| __protocol.i64_len(*el),
                    )
                    + self
                        .f2
                        .as_ref()
                        .map_or(0, |value| __protocol.bytes_field_len(Some(2), value))
                    + self.f3.as_ref().map_or(0, |value| {
                        __protocol.map_field_len(
                            Some(32767),
                            ::pilota::thrift::TType::I32,
                            ::pilota::thrift::TType::Binary,
                            value,
                            |__protocol, key| __protocol.i32_len(*key),
                            |__protocol, val| __protocol.faststr_len(val),
                        )
                    })
                    + self._unknown_fields.size()
                    + __protocol.field_stop_len()
                    + __protocol.struct_end_len()
            }
        }
        #[derive(PartialOrd, Hash, Eq, Ord, Debug, Default, Clone, PartialEq)]
        pub struct Ex1 {
            pub message: ::std::option::Option<::pilota::FastStr>,

            pub code: ::std::option::Option<i32>,
            pub _unknown_fields: ::pilota::LinkedBytes,
        }
        impl ::pilota::thrift::Message for Ex1 {
            fn encode<T: ::pilota::thrift::TOutputProtocol>(
                &self,
                __protocol: &mut T,
            ) -> ::std::result::Result<(), ::pilota::thrift::ThriftException> {
                #[allow(unused_imports)]
                use ::pilota::thrift::TOutputProtocolExt;
                let struct_ident = ::pilota::thrift::TStructIdentifier { name: "Ex1" };

                __protocol.write_struct_begin(&struct_ident)?;
                if let Some(value) = self.message.as_ref() {
                    __protocol.write_faststr_field(1, (value).clone())?;
                }
                if let Some(value) = self.code.as_ref() {
                    __protocol.write_i32_field(2, *value)?;
                }
                for bytes in self._unknown_fields.list.iter() {
                    __protocol.write_bytes_without_len(bytes.clone());
                }
                __protocol.write_field_stop()?;
                __protocol.write_struct_end()?;
                ::std::result::Result::Ok(())
            }

            fn decode<T: ::pilota::thrift::TInputProtocol>(
                __protocol: &mut T,
            ) -> ::std::result::Result<Self, ::pilota::thrift::ThriftException> {
                #[allow(unused_imports)]
                use ::pilota::{thrift::TLengthProtocolExt, Buf};

                let mut var_1 = None;
                let mut var_2 = None;
                let mut _unknown_fields = ::pilota::LinkedBytes::new();

                let mut __pilota_decoding_field_id = None;

                __protocol.read_struct_begin()?;
                if let ::std::result::Result::Err(mut err) = (|| {
                    loop {
                        let mut __pilota_offset = 0;
                        let __pilota_begin_ptr = __protocol.buf().chunk().as_ptr();
                        let field_ident = __protocol.read_field_begin()?;
                        if field_ident.field_type == ::pilota::thrift::TType::Stop {
                            __pilota_offset += __protocol.field_stop_len();
                            break;
                        } else {
                            __pilota_offset +=
                                __protocol.field_begin_len(field_ident.field_type, field_ident.id);
                        }
                        __pilota_decoding_field_id = field_ident.id;
                        match field_ident.id {
                            Some(1)
                                if field_ident.field_type == ::pilota::thrift::TType::Binary =>
                            {
                                var_1 = Some(__protocol.read_faststr()?);
                            }
                            Some(2) if field_ident.field_type == ::pilota::thrift::TType::I32 => {
                                var_2 = Some(__protocol.read_i32()?);
                            }
                            _ => {
                                __pilota_offset += __protocol.skip(field_ident.field_type)?;
                                _unknown_fields.push_back(
                                    __protocol
                                        .get_bytes(Some(__pilota_begin_ptr), __pilota_offset)?,
                                );
                            }
                        }

                        __protocol.read_field_end()?;
                        __pilota_offset += __protocol.field_end_len();
                    }
                    ::std::result::Result::Ok::<_, ::pilota::thrift::ThriftException>(())
                })() {
                    if let Some(field_id) = __pilota_decoding_field_id {
                        err.prepend_msg(&format!(
                            "decode struct `Ex1` field(#{}) failed, caused by: ",
                            field_id
                        ));
                    }
                    return ::std::result::Result::Err(err);
                };
                __protocol.read_struct_end()?;

                let data = Self {
                    message: var_1,
                    code: var_2,
                    _unknown_fields,
                };
                ::std::result::Result::Ok(data)
            }

            fn decode_async<'a, T: ::pilota::thrift::TAsyncInputProtocol>(
                __protocol: &'a mut T,
            ) -> ::std::pin::Pin<
                ::std::boxed::Box<
                    dyn ::std::future::Future<
                            Output = ::std::result::Result<Self, ::pilota::thrift::ThriftException>,
                        > + Send
                        + 'a,
                >,
            > {
                ::std::boxed::Box::pin(async move {
                    let mut var_1 = None;
                    let mut var_2 = None;

                    let mut __pilota_decoding_field_id = None;

                    __protocol.read_struct_begin().await?;
                    if let ::std::result::Result::Err(mut err) = async {
                        loop {
                            let field_ident = __protocol.read_field_begin().await?;
                            if field_ident.field_type == ::pilota::thrift::TType::Stop {
                                break;
                            } else {
                            }
                            __pilota_decoding_field_id = field_ident.id;
                            match field_ident.id {
                                Some(1)
                                    if field_ident.field_type
                                        == ::pilota::thrift::TType::Binary =>
                                {
                                    var_1 = Some(__protocol.read_faststr().await?);
                                }
                                Some(2)
                                    if field_ident.field_type == ::pilota::thrift::TType::I32 =>
                                {
                                    var_2 = Some(__protocol.read_i32().await?);
                                }
                                _ => {
                                    __protocol.skip(field_ident.field_type).await?;
                                }
                            }

                            __protocol.read_field_end().await?;
                        }
                        ::std::result::Result::Ok::<_, ::pilota::thrift::ThriftException>(())
                    }
                    .await
                    {
                        if let Some(field_id) = __pilota_decoding_field_id {
                            err.prepend_msg(&format!(
                                "decode struct `Ex1` field(#{}) failed, caused by: ",
                                field_id
                            ));
                        }
                        return ::std::result::Result::Err(err);
                    };
                    __protocol.read_struct_end().await?;

                    let data = Self {
                        message: var_1,
                        code: var_2,
                        _unknown_fields: ::pilota::LinkedBytes::new(),
                    };
                    ::std::result::Result::Ok(data)
                })
            }

            fn size<T: ::pilota::thrift::TLengthProtocol>(&self, __protocol: &mut T) -> usize {
                #[allow(unused_imports)]
                use ::pilota::thrift::TLengthProtocolExt;
                __protocol.struct_begin_len(&::pilota::thrift::TStructIdentifier { name: "Ex1" })
                    + self
                        .message
                        .as_ref()
                        .map_or(0, |value| __protocol.faststr_field_len(Some(1), value))
                    + self
                        .code
                        .as_ref()
                        .map_or(0, |value| __protocol.i32_field_len(Some(2), *value))
                    + self._unknown_fields.size()
                    + __protocol.field_stop_len()
                    + __protocol.struct_end_len()
            }
        }
        pub trait Svc0 {}
        #[derive(PartialOrd, Hash, Eq, Ord, Debug, Default, Clone, PartialEq)]
        pub struct TdList(pub ::std::vec::Vec<::pilota::FastStr>);

        impl ::std::ops::Deref for TdList {
            type Target = ::std::vec::Vec<::pilota::FastStr>;

            fn deref(&self) -> &Self::Target {
                &self.0
            }
        }

        impl From<::std::vec::Vec<::pilota::FastStr>> for TdList {
            fn from(v: ::std::vec::Vec<::pilota::FastStr>) -> Self {
                Self(v)
            }
        }

        impl ::pilota::thrift::Message for TdList {
            fn encode<T: ::pilota::thrift::TOutputProtocol>(
                &self,
                __protocol: &mut T,
            ) -> ::std::result::Result<(), ::pilota::thrift::ThriftException> {
                #[allow(unused_imports)]
                use ::pilota::thrift::TOutputProtocolExt;
                __protocol.write_list(
                    ::pilota::thrift::TType::Binary,
                    &(&**self),
                    |__protocol, val| {
                        __protocol.write_faststr((val).clone())?;
                        ::std::result::Result::Ok(())
                    },
                )?;
                ::std::result::Result::Ok(())
            }

            fn decode<T: ::pilota::thrift::TInputProtocol>(
                __protocol: &mut T,
            ) -> ::std::result::Result<Self, ::pilota::thrift::ThriftException> {
                #[allow(unused_imports)]
                use ::pilota::{thrift::TLengthProtocolExt, Buf};
                ::std::result::Result::Ok(TdList(unsafe {
                    let list_ident = __protocol.read_list_begin()?;
                    let mut val: ::std::vec::Vec<::pilota::FastStr> =
                        ::std::vec::Vec::with_capacity(list_ident.size);
                    for i in 0..list_ident.size {
                        val.as_mut_ptr()
                            .offset(i as isize)
                            .write(__protocol.read_faststr()?);
                    }
                    val.set_len(list_ident.size);
                    __protocol.read_list_end()?;
                    val
                }))
            }

            fn decode_async<'a, T: ::pilota::thrift::TAsyncInputProtocol>(
                __protocol: &'a mut T,
            ) -> ::std::pin::Pin<
                ::std::boxed::Box<
                    dyn ::std::future::Future<
                            Output = ::std::result::Result<Self, ::pilota::thrift::ThriftException>,
                        > + Send
                        + 'a,
                >,
            > {
                ::std::boxed::Box::pin(async move {
                    ::std::result::Result::Ok(TdList({
                        let list_ident = __protocol.read_list_begin().await?;
                        let mut val = ::std::vec::Vec::with_capacity(list_ident.size);
                        for _ in 0..list_ident.size {
                            val.push(__protocol.read_faststr().await?);
                        }
                        __protocol.read_list_end().await?;
                        val
                    }))
                })
            }

            fn size<T: ::pilota::thrift::TLengthProtocol>(&self, __protocol: &mut T) -> usize {
                #[allow(unused_imports)]
                use ::pilota::thrift::TLengthProtocolExt;
                __protocol.list_len(
                    ::pilota::thrift::TType::Binary,
                    &**self,
                    |__protocol, el| __protocol.faststr_len(el),
                )
            }
        }
        impl ::std::default::Default for Svc0McResultRecv {
            fn default() -> Self {
                Svc0McResultRecv::Ok(::std::default::Default::default())
            }
        }
        #[derive(PartialOrd, Hash, Eq, Ord, Debug, Clone, PartialEq)]
        pub enum Svc0McResultRecv {
            Ok(::pilota::FastStr),
        }

        impl ::pilota::thrift::Message for Svc0McResultRecv {
            fn encode<T: ::pilota::thrift::TOutputProtocol>(
                &self,
                __protocol: &mut T,
            ) -> ::std::result::Result<(), ::pilota::thrift::ThriftException> {
                #[allow(unused_imports)]
                use ::pilota::thrift::TOutputProtocolExt;
                __protocol.write_struct_begin(&::pilota::thrift::TStructIdentifier {
                    name: "Svc0McResultRecv",
                })?;
                match self {
                    Svc0McResultRecv::Ok(value) => {
                        __protocol.write_faststr_field(0, (value).clone())?;
                    }
                }
                __protocol.write_field_stop()?;
                __protocol.write_struct_end()?;
                ::std::result::Result::Ok(())
            }

            fn decode<T: ::pilota::thrift::TInputProtocol>(
                __protocol: &mut T,
            ) -> ::std::result::Result<Self, ::pilota::thrift::ThriftException> {
                #[allow(unused_imports)]
                use ::pilota::{thrift::TLengthProtocolExt, Buf};
                let mut ret = None;
                __protocol.read_struct_begin()?;
                loop {
                    let field_ident = __protocol.read_field_begin()?;
                    if field_ident.field_type == ::pilota::thrift::TType::Stop {
                        __protocol.field_stop_len();
                        break;
                    } else {
                        __protocol.field_begin_len(field_ident.field_type, field_ident.id);
                    }
                    match field_ident.id {
                        Some(0) => {
                            if ret.is_none() {
                                let field_ident = __protocol.read_faststr()?;
                                __protocol.faststr_len(&field_ident);
                                ret = Some(Svc0McResultRecv::Ok(field_ident));
                            } else {
                                return ::std::result::Result::Err(
                                    ::pilota::thrift::new_protocol_exception(
                                        ::pilota::thrift::ProtocolExceptionKind::InvalidData,
                                        "received multiple fields for union from remote Message",
                                    ),
                                );
                            }
                        }
                        _ => {
                            __protocol.skip(field_ident.field_type)?;
                        }
                    }
                }
                __protocol.read_field_end()?;
                __protocol.read_struct_end()?;
                if let Some(ret) = ret {
                    ::std::result::Result::Ok(ret)
                } else {
                    ::std::result::Result::Err(::pilota::thrift::new_protocol_exception(
                        ::pilota::thrift::ProtocolExceptionKind::InvalidData,
                        "received empty union from remote Message",
                    ))
                }
            }

            fn decode_async<'a, T: ::pilota::thrift::TAsyncInputProtocol>(
                __protocol: &'a mut T,
            ) -> ::std::pin::Pin<
                ::std::boxed::Box<
                    dyn ::std::future::Future<
                            Output = ::std::result::Result<Self, ::pilota::thrift::ThriftException>,
                        > + Send
                        + 'a,
                >,
            > {
                ::std::boxed::Box::pin(async move {
                    let mut ret = None;
                    __protocol.read_struct_begin().await?;
                    loop {
                        let field_ident = __protocol.read_field_begin().await?;
                        if field_ident.field_type == ::pilota::thrift::TType::Stop {
                            break;
                        } else {
                        }
                        match field_ident.id {
                            Some(0) => {
                                if ret.is_none() {
                                    let field_ident = __protocol.read_faststr().await?;

                                    ret = Some(Svc0McResultRecv::Ok(field_ident));
                                } else {
                                    return ::std::result::Result::Err(::pilota::thrift::new_protocol_exception(
                                            ::pilota::thrift::ProtocolExceptionKind::InvalidData,
                                            "received multiple fields for union from remote Message"
                                        ));
                                }
                            }
                            _ => {
                                __protocol.skip(field_ident.field_type).await?;
                            }
                        }
                    }
                    __protocol.read_field_end().await?;
                    __protocol.read_struct_end().await?;
                    if let Some(ret) = ret {
                        ::std::result::Result::Ok(ret)
                    } else {
                        ::std::result::Result::Err(::pilota::thrift::new_protocol_exception(
                            ::pilota::thrift::ProtocolExceptionKind::InvalidData,
                            "received empty union from remote Message",
                        ))
                    }
                })
            }

            fn size<T: ::pilota::thrift::TLengthProtocol>(&self, __protocol: &mut T) -> usize {
                #[allow(unused_imports)]
                use ::pilota::thrift::TLengthProtocolExt;
                __protocol.struct_begin_len(&::pilota::thrift::TStructIdentifier {
                    name: "Svc0McResultRecv",
                }) + match self {
                    Svc0McResultRecv::Ok(value) => __protocol.faststr_field_len(Some(0), value),
                } + __protocol.field_stop_len()
                    + __protocol.struct_end_len()
            }
        }
        impl ::std::default::Default for S0x15 {
            fn default() -> Self {
                S0x15 {
                    f1: ::std::default::Default::default(),
                    f2: Some(E1::B),
                    _unknown_fields: ::pilota::LinkedBytes::new(),
                }
            }
        }
        #[derive(PartialOrd, Hash, Eq, Ord, Debug, Clone, PartialEq)]
        pub struct S0x15 {
            pub f1: ::std::sync::Arc<Leaf1>,

            pub f2: ::std::option::Option<E1>,
            pub _unknown_fields: ::pilota::LinkedBytes,
        }
        impl ::pilota::thrift::Message for S0x15 {
            fn encode<T: ::pilota::thrift::TOutputProtocol>(
                &self,
                __protocol: &mut T,
            ) -> ::std::result::Result<(), ::pilota::thrift::ThriftException> {
                #[allow(unused_imports)]
                use ::pilota::thrift::TOutputProtocolExt;
                let struct_ident = ::pilota::thrift::TStructIdentifier { name: "S0x15" };

                __protocol.write_struct_begin(&struct_ident)?;
                __protocol.write_struct_field(1, &self.f1, ::pilota::thrift::TType::Struct)?;
                if let Some(value) = self.f2.as_ref() {
                    __protocol.write_i32_field(2, (value).inner())?;
                }
                for bytes in self._unknown_fields.list.iter() {
                    __protocol.write_bytes_without_len(bytes.clone());
                }
                __protocol.write_field_stop()?;
                __protocol.write_struct_end()?;
                ::std::result::Result::Ok(())
            }

            fn decode<T: ::pilota::thrift::TInputProtocol>(
                __protocol: &mut T,
            ) -> ::std::result::Result<Self, ::pilota::thrift::ThriftException> {
                #[allow(unused_imports)]
                use ::pilota::{thrift::TLengthProtocolExt, Buf};

                let mut var_1 = None;
                let mut var_2 = Some(E1::B);
                let mut _unknown_fields = ::pilota::LinkedBytes::new();

                let mut __pilota_decoding_field_id = None;

                __protocol.read_struct_begin()?;
                if let ::std::result::Result::Err(mut err) = (|| {
                    loop {
                        let mut __pilota_offset = 0;
                        let __pilota_begin_ptr = __protocol.buf().chunk().as_ptr();
                        let field_ident = __protocol.read_field_begin()?;
                        if field_ident.field_type == ::pilota::thrift::TType::Stop {
                            __pilota_offset += __protocol.field_stop_len();
                            break;
                        } else {
                            __pilota_offset +=
                                __protocol.field_begin_len(field_ident.field_type, field_ident.id);
                        }
                        __pilota_decoding_field_id = field_ident.id;
                        match field_ident.id {
                            Some(1)
                                if field_ident.field_type == ::pilota::thrift::TType::Struct =>
                            {
                                var_1 = Some(::std::sync::Arc::new(
                                    ::pilota::thrift::Message::decode(__protocol)?,
                                ));
                            }
                            Some(2) if field_ident.field_type == ::pilota::thrift::TType::I32 => {
                                var_2 = Some(::pilota::thrift::Message::decode(__protocol)?);
                            }
                            _ => {
                                __pilota_offset += __protocol.skip(field_ident.field_type)?;
                                _unknown_fields.push_back(
                                    __protocol
                                        .get_bytes(Some(__pilota_begin_ptr), __pilota_offset)?,
                                );
                            }
                        }

                        __protocol.read_field_end()?;
                        __pilota_offset += __protocol.field_end_len();
                    }
                    ::std::result::Result::Ok::<_, ::pilota::thrift::ThriftException>(())
                })() {
                    if let Some(field_id) = __pilota_decoding_field_id {
                        err.prepend_msg(&format!(
                            "decode struct `S0x15` field(#{}) failed, caused by: ",
                            field_id
                        ));
                    }
                    return ::std::result::Result::Err(err);
                };
                __protocol.read_struct_end()?;

                let Some(var_1) = var_1 else {
                    return ::std::result::Result::Err(::pilota::thrift::new_protocol_exception(
                        ::pilota::thrift::ProtocolExceptionKind::InvalidData,
                        "field f1 is required".to_string(),
                    ));
                };

                let data = Self {
                    f1: var_1,
                    f2: var_2,
                    _unknown_fields,
                };
                ::std::result::Result::Ok(data)
            }

            fn decode_async<'a, T: ::pilota::thrift::TAsyncInputProtocol>(
                __protocol: &'a mut T,
            ) -> ::std::pin::Pin<
                ::std::boxed::Box<
                    dyn ::std::future::Future<
                            Output = ::std::result::Result<Self, ::pilota::thrift::ThriftException>,
                        > + Send
                        + 'a,
                >,
            > {
                ::std::boxed::Box::pin(async move {
                    let mut var_1 = None;
                    let mut var_2 = Some(E1::B);

                    let mut __pilota_decoding_field_id = None;

                    __protocol.read_struct_begin().await?;
                    if let ::std::result::Result::Err(mut err) = async {
                        loop {
                            let field_ident = __protocol.read_field_begin().await?;
                            if field_ident.field_type == ::pilota::thrift::TType::Stop {
                                break;
                            } else {
                            }
                            __pilota_decoding_field_id = field_ident.id;
                            match field_ident.id {
                                Some(1)
                                    if field_ident.field_type
                                        == ::pilota::thrift::TType::Struct =>
                                {
                                    var_1 = Some(::std::sync::Arc::new(
                                        <Leaf1 as ::pilota::thrift::Message>::decode_async(
                                            __protocol,
                                        )
                                        .await?,
                                    ));
                                }
                                Some(2)
                                    if field_ident.field_type == ::pilota::thrift::TType::I32 =>
                                {
                                    var_2 = Some(
                                        <E1 as ::pilota::thrift::Message>::decode_async(__protocol)
                                            .await?,
                                    );
                                }
                                _ => {
                                    __protocol.skip(field_ident.field_type).await?;
                                }
                            }

                            __protocol.read_field_end().await?;
                        }
                        ::std::result::Result::Ok::<_, ::pilota::thrift::ThriftException>(())
                    }
                    .await
                    {
                        if let Some(field_id) = __pilota_decoding_field_id {
                            err.prepend_msg(&format!(
                                "decode struct `S0x15` field(#{}) failed, caused by: ",
                                field_id
                            ));
                        }
                        return ::std::result::Result::Err(err);
                    };
                    __protocol.read_struct_end().await?;

                    let Some(var_1) = var_1 else {
                        return ::std::result::Result::Err(
                            ::pilota::thrift::new_protocol_exception(
                                ::pilota::thrift::ProtocolExceptionKind::InvalidData,
                                "field f1 is required".to_string(),
                            ),
                        );
                    };

                    let data = Self {
                        f1: var_1,
                        f2: var_2,
                        _unknown_fields: ::pilota::LinkedBytes::new(),
                    };
                    ::std::result::Result::Ok(data)
                })
            }

            fn size<T: ::pilota::thrift::TLengthProtocol>(&self, __protocol: &mut T) -> usize {
                #[allow(unused_imports)]
                use ::pilota::thrift::TLengthProtocolExt;
                __protocol.struct_begin_len(&::pilota::thrift::TStructIdentifier { name: "S0x15" })
                    + __protocol.struct_field_len(Some(1), &self.f1)
                    + self.f2.as_ref().map_or(0, |value| {
                        __protocol.i32_field_len(Some(2), (value).inner())
                    })
                    + self._unknown_fields.size()
                    + __protocol.field_stop_len()
                    + __protocol.struct_end_len()
            }
        }
        impl ::std::default::Default for S0x3 {
            fn default() -> Self {
                S0x3 {
                    f1: Some(E1::B),
                    f2: ::std::default::Default::default(),
                    f3: ::std::default::Default::default(),
                    _unknown_fields: ::pilota::LinkedBytes::new(),
                }
            }
        }
        #[derive(Debug, Clone, PartialEq)]
        pub struct S0x3 {
            pub f1: ::std::option::Option<E1>,

            pub f2: ::std::sync::Arc<E1>,

            pub f3: ::std::option::Option<::pilota::AHashSet<::pilota::OrderedFloat<f64>>>,
            pub _unknown_fields: ::pilota::LinkedBytes,
        }
        impl ::pilota::thrift::Message for S0x3 {
            fn encode<T: ::pilota::thrift::TOutputProtocol>(
                &self,
                __protocol: &mut T,
            ) -> ::std::result::Result<(), ::pilota::thrift::ThriftException> {
                #[allow(unused_imports)]
                use ::pilota::thrift::TOutputProtocolExt;
                let struct_ident = ::pilota::thrift::TStructIdentifier { name: "S0x3" };

                __protocol.write_struct_begin(&struct_ident)?;
                if let Some(value) = self.f1.as_ref() {
                    __protocol.write_i32_field(1, (value).inner())?;
                }
                __protocol.write_i32_field(2, (&self.f2).inner())?;
                if let Some(value) = self.f3.as_ref() {
                    __protocol.write_set_field(
                        3,
                        ::pilota::thrift::TType::Double,
                        &value,
                        |__protocol, val| {
                            __protocol.write_double(val.0)?;
                            ::std::result::Result::Ok(())
                        },
                    )?;
                }
                for bytes in self._unknown_fields.list.iter() {
                    __protocol.write_bytes_without_len(bytes.clone());
                }
                __protocol.write_field_stop()?;
                __protocol.write_struct_end()?;
                ::std::result::Result::Ok(())
            }

            fn decode<T: ::pilota::thrift::TInputProtocol>(
                __protocol: &mut T,
            ) -> ::std::result::Result<Self, ::pilota::thrift::ThriftException> {
                #[allow(unused_imports)]
                use ::pilota::{thrift::TLengthProtocolExt, Buf};

                let mut var_1 = Some(E1::B);
                let mut var_2 = None;
                let mut var_3 = None;
                let mut _unknown_fields = ::pilota::LinkedBytes::new();

                let mut __pilota_decoding_field_id = None;

                __protocol.read_struct_begin()?;
                if let ::std::result::Result::Err(mut err) = (|| {
                    loop {
                        let mut __pilota_offset = 0;
                        let __pilota_begin_ptr = __protocol.buf().chunk().as_ptr();
                        let field_ident = __protocol.read_field_begin()?;
                        if field_ident.field_type == ::pilota::thrift::TType::Stop {
                            __pilota_offset += __protocol.field_stop_len();
                            break;
                        } else {
                            __pilota_offset +=
                                __protocol.field_begin_len(field_ident.field_type, field_ident.id);
                        }
                        __pilota_decoding_field_id = field_ident.id;
                        match field_ident.id {
                            Some(1) if field_ident.field_type == ::pilota::thrift::TType::I32 => {
                                var_1 = Some(::pilota::thrift::Message::decode(__protocol)?);
                            }
                            Some(2) if field_ident.field_type == ::pilota::thrift::TType::I32 => {
                                var_2 = Some(::std::sync::Arc::new(
                                    ::pilota::thrift::Message::decode(__protocol)?,
                                ));
                            }
                            Some(3) if field_ident.field_type == ::pilota::thrift::TType::Set => {
                                var_3 = Some({
                                    let list_ident = __protocol.read_set_begin()?;
                                    let mut val =
                                        ::pilota::AHashSet::with_capacity(list_ident.size);
                                    for _ in 0..list_ident.size {
                                        val.insert(::pilota::OrderedFloat(
                                            __protocol.read_double()?,
                                        ));
                                    }
                                    __protocol.read_set_end()?;
                                    val
                                });
                            }
                            _ => {
                                __pilota_offset += __protocol.skip(field_ident.field_type)?;
                                _unknown_fields.push_back(
                                    __protocol
                                        .get_bytes(Some(__pilota_begin_ptr), __pilota_offset)?,
                                );
                            }
                        }

                        __protocol.read_field_end()?;
                        __pilota_offset += __protocol.field_end_len();
                    }
                    ::std::result::Result::Ok::<_, ::pilota::thrift::ThriftException>(())
                })() {
                    if let Some(field_id) = __pilota_decoding_field_id {
                        err.prepend_msg(&format!(
                            "decode struct `S0x3` field(#{}) failed, caused by: ",
                            field_id
                        ));
                    }
                    return ::std::result::Result::Err(err);
                };
                __protocol.read_struct_end()?;

                let Some(var_2) = var_2 else {
                    return ::std::result::Result::Err(::pilota::thrift::new_protocol_exception(
                        ::pilota::thrift::ProtocolExceptionKind::InvalidData,
                        "field f2 is required".to_string(),
                    ));
                };

                let data = Self {
                    f1: var_1,
                    f2: var_2,
                    f3: var_3,
                    _unknown_fields,
                };
                ::std::result::Result::Ok(data)
            }

            fn decode_async<'a, T: ::pilota::thrift::TAsyncInputProtocol>(
                __protocol: &'a mut T,
            ) -> ::std::pin::Pin<
                ::std::boxed::Box<
                    dyn ::std::future::Future<
                            Output = ::std::result::Result<Self, ::pilota::thrift::ThriftException>,
                        > + Send
                        + 'a,
                >,
            > {
                ::std::boxed::Box::pin(async move {
                    let mut var_1 = Some(E1::B);
                    let mut var_2 = None;
                    let mut var_3 = None;

                    let mut __pilota_decoding_field_id = None;

                    __protocol.read_struct_begin().await?;
                    if let ::std::result::Result::Err(mut err) = async {
                        loop {
                            let field_ident = __protocol.read_field_begin().await?;
                            if field_ident.field_type == ::pilota::thrift::TType::Stop {
                                break;
                            } else {
                            }
                            __pilota_decoding_field_id = field_ident.id;
                            match field_ident.id {
                                Some(1)
                                    if field_ident.field_type == ::pilota::thrift::TType::I32 =>
                                {
                                    var_1 = Some(
                                        <E1 as ::pilota::thrift::Message>::decode_async(__protocol)
                                            .await?,
                                    );
                                }
                                Some(2)
                                    if field_ident.field_type == ::pilota::thrift::TType::I32 =>
                                {
                                    var_2 = Some(::std::sync::Arc::new(
                                        <E1 as ::pilota::thrift::Message>::decode_async(__protocol)
                                            .await?,
                                    ));
                                }
                                Some(3)
                                    if field_ident.field_type == ::pilota::thrift::TType::Set =>
                                {
                                    var_3 = Some({
                                        let list_ident = __protocol.read_set_begin().await?;
                                        let mut val =
                                            ::pilota::AHashSet::with_capacity(list_ident.size);
                                        for _ in 0..list_ident.size {
                                            val.insert(::pilota::OrderedFloat(
                                                __protocol.read_double().await?,
                                            ));
                                        }
                                        __protocol.read_set_end().await?;
                                        val
                                    });
                                }
                                _ => {
                                    __protocol.skip(field_ident.field_type).await?;
                                }
                            }

                            __protocol.read_field_end().await?;
                        }
                        ::std::result::Result::Ok::<_, ::pilota::thrift::ThriftException>(())
                    }
                    .await
                    {
                        if let Some(field_id) = __pilota_decoding_field_id {
                            err.prepend_msg(&format!(
                                "decode struct `S0x3` field(#{}) failed, caused by: ",
                                field_id
                            ));
                        }
                        return ::std::result::Result::Err(err);
                    };
                    __protocol.read_struct_end().await?;

                    let Some(var_2) = var_2 else {
                        return ::std::result::Result::Err(
                            ::pilota::thrift::new_protocol_exception(
                                ::pilota::thrift::ProtocolExceptionKind::InvalidData,
                                "field f2 is required".to_string(),
                            ),
                        );
                    };

                    let data = Self {
                        f1: var_1,
                        f2: var_2,
                        f3: var_3,
                        _unknown_fields: ::pilota::LinkedBytes::new(),
                    };
                    ::std::result::Result::Ok(data)
                })
            }

            fn size<T: ::pilota::thrift::TLengthProtocol>(&self, __protocol: &mut T) -> usize {
                #[allow(unused_imports)]
                use ::pilota::thrift::TLengthProtocolExt;
                __protocol.struct_begin_len(&::pilota::thrift::TStructIdentifier { name: "S0x3" })
                    + self.f1.as_ref().map_or(0, |value| {
                        __protocol.i32_field_len(Some(1), (value).inner())
                    })
                    + __protocol.i32_field_len(Some(2), (&self.f2).inner())
                    + self.f3.as_ref().map_or(0, |value| {
                        __protocol.set_field_len(
                            Some(3),
                            ::pilota::thrift::TType::Double,
                            value,
                            |__protocol, el| __protocol.double_len(el.0),
                        )
                    })
                    + self._unknown_fields.size()
                    + __protocol.field_stop_len()
                    + __protocol.struct_end_len()
            }
        }
        impl ::std::default::Default for U1 {
            fn default() -> Self {
                U1::N(::std::default::Default::default())
            }
        }
        #[derive(PartialOrd, Hash, Eq, Ord, Debug, Clone, PartialEq)]
        pub enum U1 {
            N(i64),

            S(::pilota::FastStr),

            L(Leaf1),

            Xs(::std::vec::Vec<i16>),
            _UnknownFields(::pilota::LinkedBytes),
        }

        impl ::pilota::thrift::Message for U1 {
            fn encode<T: ::pilota::thrift::TOutputProtocol>(
                &self,
                __protocol: &mut T,
            ) -> ::std::result::Result<(), ::pilota::thrift::ThriftException> {
                #[allow(unused_imports)]
                use ::pilota::thrift::TOutputProtocolExt;
                __protocol
                    .write_struct_begin(&::pilota::thrift::TStructIdentifier { name: "U1" })?;
                match self {
                    U1::N(value) => {
                        __protocol.write_i64_field(1, *value)?;
                    }
                    U1::S(value) => {
                        __protocol.write_faststr_field(2, (value).clone())?;
                    }
                    U1::L(value) => {
                        __protocol.write_struct_field(3, value, ::pilota::thrift::TType::Struct)?;
                    }
                    U1::Xs(value) => {
                        __protocol.write_list_field(
                            16,
                            ::pilota::thrift::TType::I16,
                            &value,
                            |__protocol, val| {
                                __protocol.write_i16(*val)?;
                                ::std::result::Result::Ok(())
                            },
                        )?;
                    }
                    U1::_UnknownFields(value) => {
                        for bytes in value.list.iter() {
                            __protocol.write_bytes_without_len(bytes.clone());
                        }
                    }
                }
                __protocol.write_field_stop()?;
                __protocol.write_struct_end()?;
                ::std::result::Result::Ok(())
            }

            fn decode<T: ::pilota::thrift::TInputProtocol>(
                __protocol: &mut T,
            ) -> ::std::result::Result<Self, ::pilota::thrift::ThriftException> {
                #[allow(unused_imports)]
                use ::pilota::{thrift::TLengthProtocolExt, Buf};
                let mut ret = None;
                __protocol.read_struct_begin()?;
                loop {
                    let mut __pilota_offset = 0;
                    let __pilota_begin_ptr = __protocol.buf().chunk().as_ptr();
                    let field_ident = __protocol.read_field_begin()?;
                    if field_ident.field_type == ::pilota::thrift::TType::Stop {
                        __pilota_offset += __protocol.field_stop_len();
                        break;
                    } else {
                        __pilota_offset +=
                            __protocol.field_begin_len(field_ident.field_type, field_ident.id);
                    }
                    match field_ident.id {
                        Some(1) => {
                            if ret.is_none() {
                                let field_ident = __protocol.read_i64()?;
                                __pilota_offset += __protocol.i64_len(*&field_ident);
                                ret = Some(U1::N(field_ident));
                            } else {
                                return ::std::result::Result::Err(
                                    ::pilota::thrift::new_protocol_exception(
                                        ::pilota::thrift::ProtocolExceptionKind::InvalidData,
                                        "received multiple fields for union from remote Message",
                                    ),
                                );
                            }
                        }
                        Some(2) => {
                            if ret.is_none() {
                                let field_ident = __protocol.read_faststr()?;
                                __pilota_offset += __protocol.faststr_len(&field_ident);
                                ret = Some(U1::S(field_ident));
                            } else {
                                return ::std::result::Result::Err(
                                    ::pilota::thrift::new_protocol_exception(
                                        ::pilota::thrift::ProtocolExceptionKind::InvalidData,
                                        "received multiple fields for union from remote Message",
                                    ),
                                );
                            }
                        }
                        Some(3) => {
                            if ret.is_none() {
                                let field_ident = ::pilota::thrift::Message::decode(__protocol)?;
                                __pilota_offset += __protocol.struct_len(&field_ident);
                                ret = Some(U1::L(field_ident));
                            } else {
                                return ::std::result::Result::Err(
                                    ::pilota::thrift::new_protocol_exception(
                                        ::pilota::thrift::ProtocolExceptionKind::InvalidData,
                                        "received multiple fields for union from remote Message",
                                    ),
                                );
                            }
                        }
                        Some(16) => {
                            if ret.is_none() {
                                let field_ident = unsafe {
                                    let list_ident = __protocol.read_list_begin()?;
                                    let mut val: ::std::vec::Vec<i16> =
                                        ::std::vec::Vec::with_capacity(list_ident.size);
                                    for i in 0..list_ident.size {
                                        val.as_mut_ptr()
                                            .offset(i as isize)
                                            .write(__protocol.read_i16()?);
                                    }
                                    val.set_len(list_ident.size);
                                    __protocol.read_list_end()?;
                                    val
                                };
                                __pilota_offset += __protocol.list_len(
                                    ::pilota::thrift::TType::I16,
                                    &field_ident,
                                    |__protocol, el| __protocol.i16_len(*el),
                                );
                                ret = Some(U1::Xs(field_ident));
                            } else {
                                return ::std::result::Result::Err(
                                    ::pilota::thrift::new_protocol_exception(
                                        ::pilota::thrift::ProtocolExceptionKind::InvalidData,
                                        "received multiple fields for union from remote Message",
                                    ),
                                );
                            }
                        }
                        _ => {
                            __pilota_offset += __protocol.skip(field_ident.field_type)?;
                            if ret.is_none() {
                                unsafe {
                                    let mut __pilota_linked_bytes = ::pilota::LinkedBytes::new();
                                    __pilota_linked_bytes.push_back(
                                        __protocol
                                            .get_bytes(Some(__pilota_begin_ptr), __pilota_offset)?,
                                    );
                                    ret = Some(U1::_UnknownFields(__pilota_linked_bytes));
                                }
                            } else {
                                return ::std::result::Result::Err(
                                    ::pilota::thrift::new_protocol_exception(
                                        ::pilota::thrift::ProtocolExceptionKind::InvalidData,
                                        "received multiple fields for union from remote Message",
                                    ),
                                );
                            }
                        }
                    }
                }
                __protocol.read_field_end()?;
                __protocol.read_struct_end()?;
                if let Some(ret) = ret {
                    ::std::result::Result::Ok(ret)
                } else {
                    ::std::result::Result::Err(::pilota::thrift::new_protocol_exception(
                        ::pilota::thrift::ProtocolExceptionKind::InvalidData,
                        "received empty union from remote Message",
                    ))
                }
            }

            fn decode_async<'a, T: ::pilota::thrift::TAsyncInputProtocol>(
                __protocol: &'a mut T,
            ) -> ::std::pin::Pin<
                ::std::boxed::Box<
                    dyn ::std::future::Future<
                            Output = ::std::result::Result<Self, ::pilota::thrift::ThriftException>,
                        > + Send
                        + 'a,
                >,
            > {
                ::std::boxed::Box::pin(async move {
                    let mut ret = None;
                    __protocol.read_struct_begin().await?;
                    loop {
                        let field_ident = __protocol.read_field_begin().await?;
                        if field_ident.field_type == ::pilota::thrift::TType::Stop {
                            break;
                        } else {
                        }
                        match field_ident.id {
                            Some(1) => {
                                if ret.is_none() {
                                    let field_ident = __protocol.read_i64().await?;

                                    ret = Some(U1::N(field_ident));
                                } else {
                                    return ::std::result::Result::Err(::pilota::thrift::new_protocol_exception(
                                            ::pilota::thrift::ProtocolExceptionKind::InvalidData,
                                            "received multiple fields for union from remote Message"
                                        ));
                                }
                            }
                            Some(2) => {
                                if ret.is_none() {
                                    let field_ident = __protocol.read_faststr().await?;

                                    ret = Some(U1::S(field_ident));
                                } else {
                                    return ::std::result::Result::Err(::pilota::thrift::new_protocol_exception(
                                            ::pilota::thrift::ProtocolExceptionKind::InvalidData,
                                            "received multiple fields for union from remote Message"
                                        ));
                                }
                            }
                            Some(3) => {
                                if ret.is_none() {
                                    let field_ident =
                                        <Leaf1 as ::pilota::thrift::Message>::decode_async(
                                            __protocol,
                                        )
                                        .await?;

                                    ret = Some(U1::L(field_ident));
                                } else {
                                    return ::std::result::Result::Err(::pilota::thrift::new_protocol_exception(
                                            ::pilota::thrift::ProtocolExceptionKind::InvalidData,
                                            "received multiple fields for union from remote Message"
                                        ));
                                }
                            }
                            Some(16) => {
                                if ret.is_none() {
                                    let field_ident = {
                                        let list_ident = __protocol.read_list_begin().await?;
                                        let mut val =
                                            ::std::vec::Vec::with_capacity(list_ident.size);
                                        for _ in 0..list_ident.size {
                                            val.push(__protocol.read_i16().await?);
                                        }
                                        __protocol.read_list_end().await?;
                                        val
                                    };

                                    ret = Some(U1::Xs(field_ident));
                                } else {
                                    return ::std::result::Result::Err(::pilota::thrift::new_protocol_exception(
                                            ::pilota::thrift::ProtocolExceptionKind::InvalidData,
                                            "received multiple fields for union from remote Message"
                                        ));
                                }
                            }
                            _ => {
                                __protocol.skip(field_ident.field_type).await?;
                            }
                        }
                    }
                    __protocol.read_field_end().await?;
                    __protocol.read_struct_end().await?;
                    if let Some(ret) = ret {
                        ::std::result::Result::Ok(ret)
                    } else {
                        ::std::result::Result::Err(::pilota::thrift::new_protocol_exception(
                            ::pilota::thrift::ProtocolExceptionKind::InvalidData,
                            "received empty union from remote Message",
                        ))
                    }
                })
            }

            fn size<T: ::pilota::thrift::TLengthProtocol>(&self, __protocol: &mut T) -> usize {
                #[allow(unused_imports)]
                use ::pilota::thrift::TLengthProtocolExt;
                __protocol.struct_begin_len(&::pilota::thrift::TStructIdentifier { name: "U1" })
                    + match self {
                        U1::N(value) => __protocol.i64_field_len(Some(1), *value),
                        U1::S(value) => __protocol.faststr_field_len(Some(2), value),
                        U1::L(value) => __protocol.struct_field_len(Some(3), value),
                        U1::Xs(value) => __protocol.list_field_len(
                            Some(16),
                            ::pilota::thrift::TType::I16,
                            value,
                            |__protocol, el| __protocol.i16_len(*el),
                        ),
                        U1::_UnknownFields(value) => value.size(),
                    }
                    + __protocol.field_stop_len()
                    + __protocol.struct_end_len()
            }
        }
        impl ::std::default::Default for Req0 {
            fn default() -> Self {
                Req0 {
                    page: Some(7i32),
                    note: ::std::default::Default::default(),
                    z: ::std::default::Default::default(),
                    flag: Some(true),
                    lang: Some(::pilota::FastStr::from_static_str("en")),
                    xs: ::std::default::Default::default(),
                    leaf: ::std::default::Default::default(),
                    _unknown_fields: ::pilota::LinkedBytes::new(),
                }
            }
        }
        #[derive(PartialOrd, Hash, Eq, Ord, Debug, Clone, PartialEq)]
        pub struct Req0 {
            pub page: ::std::option::Option<i32>,

            pub note: ::std::option::Option<::pilota::FastStr>,

            pub z: i64,

            pub flag: ::std::option::Option<bool>,

            pub lang: ::std::option::Option<::pilota::FastStr>,

            pub xs: ::std::option::Option<::std::vec::Vec<i32>>,

            pub leaf: ::std::option::Option<Leaf1>,
            pub _unknown_fields: ::pilota::LinkedBytes,
        }
        impl ::pilota::thrift::Message for Req0 {
            fn encode<T: ::pilota::thrift::TOutputProtocol>(
                &self,
                __protocol: &mut T,
            ) -> ::std::result::Result<(), ::pilota::thrift::ThriftException> {
                #[allow(unused_imports)]
                use ::pilota::thrift::TOutputProtocolExt;
                let struct_ident = ::pilota::thrift::TStructIdentifier { name: "Req0" };

                __protocol.write_struct_begin(&struct_ident)?;
                if let Some(value) = self.page.as_ref() {
                    __protocol.write_i32_field(1, *value)?;
                }
                if let Some(value) = self.note.as_ref() {
                    __protocol.write_faststr_field(2, (value).clone())?;
                }
                __protocol.write_i64_field(3, *&self.z)?;
                if let Some(value) = self.flag.as_ref() {
                    __protocol.write_bool_field(4, *value)?;
                }
                if let Some(value) = self.lang.as_ref() {
                    __protocol.write_faststr_field(5, (value).clone())?;
                }
                if let Some(value) = self.xs.as_ref() {
                    __protocol.write_list_field(
                        6,
                        ::pilota::thrift::TType::I32,
                        &value,
                        |__protocol, val| {
                            __protocol.write_i32(*val)?;
                            ::std::result::Result::Ok(())
                        },
                    )?;
                }
                if let Some(value) = self.leaf.as_ref() {
                    __protocol.write_struct_field(16, value, ::pilota::thrift::TType::Struct)?;
                }
                for bytes in self._unknown_fields.list.iter() {
                    __protocol.write_bytes_without_len(bytes.clone());
                }
                __protocol.write_field_stop()?;
                __protocol.write_struct_end()?;
                ::std::result::Result::Ok(())
            }

            fn decode<T: ::pilota::thrift::TInputProtocol>(
                __protocol: &mut T,
            ) -> ::std::result::Result<Self, ::pilota::thrift::ThriftException> {
                #[allow(unused_imports)]
                use ::pilota::{thrift::TLengthProtocolExt, Buf};

                let mut __pilota_fields_num = 0;
                let mut var_1 = Some(7i32);
                __pilota_fields_num += 1;
                let mut var_2 = None;
                __pilota_fields_num += 1;
                let mut var_3 = None;
                __pilota_fields_num += 1;
                let mut var_4 = Some(true);
                __pilota_fields_num += 1;
                let mut var_5 = Some(::pilota::FastStr::from_static_str("en"));
                __pilota_fields_num += 1;
                let mut var_6 = None;
                __pilota_fields_num += 1;
                let mut var_16 = None;
                __pilota_fields_num += 1;
                let mut _unknown_fields = ::pilota::LinkedBytes::new();

                let mut __pilota_decoding_field_id = None;

                __protocol.read_struct_begin()?;
                if let ::std::result::Result::Err(mut err) = (|| {
                    loop {
                        if __pilota_fields_num == 0 {
                            let __pilota_remaining = __protocol.buf().remaining();
                            _unknown_fields
                                .push_back(__protocol.get_bytes(None, __pilota_remaining - 2)?);
                            break;
                        }
                        let mut __pilota_offset = 0;
                        let __pilota_begin_ptr = __protocol.buf().chunk().as_ptr();
                        let field_ident = __protocol.read_field_begin()?;
                        if field_ident.field_type == ::pilota::thrift::TType::Stop {
                            __pilota_offset += __protocol.field_stop_len();
                            break;
                        } else {
                            __pilota_offset +=
                                __protocol.field_begin_len(field_ident.field_type, field_ident.id);
                        }
                        __pilota_decoding_field_id = field_ident.id;
                        match field_ident.id {
                            Some(1) if field_ident.field_type == ::pilota::thrift::TType::I32 => {
                                var_1 = Some(__protocol.read_i32()?);
                                __pilota_fields_num -= 1;
                            }
                            Some(2)
                                if field_ident.field_type == ::pilota::thrift::TType::Binary =>
                            {
                                var_2 = Some(__protocol.read_faststr()?);
                                __pilota_fields_num -= 1;
                            }
                            Some(3) if field_ident.field_type == ::pilota::thrift::TType::I64 => {
                                var_3 = Some(__protocol.read_i64()?);
                                __pilota_fields_num -= 1;
                            }
                            Some(4) if field_ident.field_type == ::pilota::thrift::TType::Bool => {
                                var_4 = Some(__protocol.read_bool()?);
                                __pilota_fields_num -= 1;
                            }
                            Some(5)
                                if field_ident.field_type == ::pilota::thrift::TType::Binary =>
                            {
                                var_5 = Some(__protocol.read_faststr()?);
                                __pilota_fields_num -= 1;
                            }
                            Some(6) if field_ident.field_type == ::pilota::thrift::TType::List => {
                                var_6 = Some(unsafe {
                                    let list_ident = __protocol.read_list_begin()?;
                                    let mut val: ::std::vec::Vec<i32> =
                                        ::std::vec::Vec::with_capacity(list_ident.size);
                                    for i in 0..list_ident.size {
                                        val.as_mut_ptr()
                                            .offset(i as isize)
                                            .write(__protocol.read_i32()?);
                                    }
                                    val.set_len(list_ident.size);
                                    __protocol.read_list_end()?;
                                    val
                                });
                                __pilota_fields_num -= 1;
                            }
                            Some(16)
                                if field_ident.field_type == ::pilota::thrift::TType::Struct =>
                            {
                                var_16 = Some(::pilota::thrift::Message::decode(__protocol)?);
                                __pilota_fields_num -= 1;
                            }
                            _ => {
                                __pilota_offset += __protocol.skip(field_ident.field_type)?;
                                _unknown_fields.push_back(
                                    __protocol
                                        .get_bytes(Some(__pilota_begin_ptr), __pilota_offset)?,
                                );
                            }
                        }

                        __protocol.read_field_end()?;
                        __pilota_offset += __protocol.field_end_len();
                    }
                    ::std::result::Result::Ok::<_, ::pilota::thrift::ThriftException>(())
                })() {
                    if let Some(field_id) = __pilota_decoding_field_id {
                        err.prepend_msg(&format!(
                            "decode struct `Req0` field(#{}) failed, caused by: ",
                            field_id
                        ));
                    }
                    return ::std::result::Result::Err(err);
                };
                __protocol.read_struct_end()?;

                let Some(var_3) = var_3 else {
                    return ::std::result::Result::Err(::pilota::thrift::new_protocol_exception(
                        ::pilota::thrift::ProtocolExceptionKind::InvalidData,
                        "field z is required".to_string(),
                    ));
                };

                let data = Self {
                    page: var_1,
                    note: var_2,
                    z: var_3,
                    flag: var_4,
                    lang: var_5,
                    xs: var_6,
                    leaf: var_16,
                    _unknown_fields,
                };
                ::std::result::Result::Ok(data)
            }

            fn decode_async<'a, T: ::pilota::thrift::TAsyncInputProtocol>(
                __protocol: &'a mut T,
            ) -> ::std::pin::Pin<
                ::std::boxed::Box<
                    dyn ::std::future::Future<
                            Output = ::std::result::Result<Self, ::pilota::thrift::ThriftException>,
                        > + Send
                        + 'a,
                >,
            > {
                ::std::boxed::Box::pin(async move {
                    let mut var_1 = Some(7i32);
                    let mut var_2 = None;
                    let mut var_3 = None;
                    let mut var_4 = Some(true);
                    let mut var_5 = Some(::pilota::FastStr::from_static_str("en"));
                    let mut var_6 = None;
                    let mut var_16 = None;

                    let mut __pilota_decoding_field_id = None;

                    __protocol.read_struct_begin().await?;
                    if let ::std::result::Result::Err(mut err) = async {
                        loop {
                            let field_ident = __protocol.read_field_begin().await?;
                            if field_ident.field_type == ::pilota::thrift::TType::Stop {
                                break;
                            } else {
                            }
                            __pilota_decoding_field_id = field_ident.id;
                            match field_ident.id {
                                Some(1)
                                    if field_ident.field_type == ::pilota::thrift::TType::I32 =>
                                {
                                    var_1 = Some(__protocol.read_i32().await?);
                                }
                                Some(2)
                                    if field_ident.field_type
                                        == ::pilota::thrift::TType::Binary =>
                                {
                                    var_2 = Some(__protocol.read_faststr().await?);
                                }
                                Some(3)
                                    if field_ident.field_type == ::pilota::thrift::TType::I64 =>
                                {
                                    var_3 = Some(__protocol.read_i64().await?);
                                }
                                Some(4)
                                    if field_ident.field_type == ::pilota::thrift::TType::Bool =>
                                {
                                    var_4 = Some(__protocol.read_bool().await?);
                                }
                                Some(5)
                                    if field_ident.field_type
                                        == ::pilota::thrift::TType::Binary =>
                                {
                                    var_5 = Some(__protocol.read_faststr().await?);
                                }
                                Some(6)
                                    if field_ident.field_type == ::pilota::thrift::TType::List =>
                                {
                                    var_6 = Some({
                                        let list_ident = __protocol.read_list_begin().await?;
                                        let mut val =
                                            ::std::vec::Vec::with_capacity(list_ident.size);
                                        for _ in 0..list_ident.size {
                                            val.push(__protocol.read_i32().await?);
                                        }
                                        __protocol.read_list_end().await?;
                                        val
                                    });
                                }
                                Some(16)
                                    if field_ident.field_type
                                        == ::pilota::thrift::TType::Struct =>
                                {
                                    var_16 = Some(
                                        <Leaf1 as ::pilota::thrift::Message>::decode_async(
                                            __protocol,
                                        )
                                        .await?,
                                    );
                                }
                                _ => {
                                    __protocol.skip(field_ident.field_type).await?;
                                }
                            }

                            __protocol.read_field_end().await?;
                        }
                        ::std::result::Result::Ok::<_, ::pilota::thrift::ThriftException>(())
                    }
                    .await
                    {
                        if let Some(field_id) = __pilota_decoding_field_id {
                            err.prepend_msg(&format!(
                                "decode struct `Req0` field(#{}) failed, caused by: ",
                                field_id
                            ));
                        }
                        return ::std::result::Result::Err(err);
                    };
                    __protocol.read_struct_end().await?;

                    let Some(var_3) = var_3 else {
                        return ::std::result::Result::Err(
                            ::pilota::thrift::new_protocol_exception(
                                ::pilota::thrift::ProtocolExceptionKind::InvalidData,
                                "field z is required".to_string(),
                            ),
                        );
                    };

                    let data = Self {
                        page: var_1,
                        note: var_2,
                        z: var_3,
                        flag: var_4,
                        lang: var_5,
                        xs: var_6,
                        leaf: var_16,
                        _unknown_fields: ::pilota::LinkedBytes::new(),
                    };
                    ::std::result::Result::Ok(data)
                })
            }

            fn size<T: ::pilota::thrift::TLengthProtocol>(&self, __protocol: &mut T) -> usize {
                #[allow(unused_imports)]
                use ::pilota::thrift::TLengthProtocolExt;
                __protocol.struct_begin_len(&::pilota::thrift::TStructIdentifier { name: "Req0" })
                    + self
                        .page
                        .as_ref()
                        .map_or(0, |value| __protocol.i32_field_len(Some(1), *value))
                    + self
                        .note
                        .as_ref()
                        .map_or(0, |value| __protocol.faststr_field_len(Some(2), value))
                    + __protocol.i64_field_len(Some(3), *&self.z)
                    + self
                        .flag
                        .as_ref()
                        .map_or(0, |value| __protocol.bool_field_len(Some(4), *value))
                    + self
                        .lang
                        .as_ref()
                        .map_or(0, |value| __protocol.faststr_field_len(Some(5), value))
                    + self.xs.as_ref().map_or(0, |value| {
                        __protocol.list_field_len(
                            Some(6),
                            ::pilota::thrift::TType::I32,
                            value,
                            |__protocol, el| __protocol.i32_len(*el),
                        )
                    })
                    + self
                        .leaf
                        .as_ref()
                        .map_or(0, |value| __protocol.struct_field_len(Some(16), value))
                    + self._unknown_fields.size()
                    + __protocol.field_stop_len()
                    + __protocol.struct_end_len()
            }
        }
        #[derive(PartialOrd, Hash, Eq, Ord, Debug, Default, Clone, PartialEq)]
        pub struct S0x10 {
            pub f1: ::std::option::Option<::std::collections::BTreeMap<::pilota::FastStr, i32>>,

            pub f2: ::std::option::Option<U1>,

            pub f3: ::std::option::Option<Leaf1>,
            pub _unknown_fields: ::pilota::LinkedBytes,
        }
        impl ::pilota::thrift::Message for S0x10 {
            fn encode<T: ::pilota::thrift::TOutputProtocol>(
                &self,
                __protocol: &mut T,
            ) -> ::std::result::Result<(), ::pilota::thrift::ThriftException> {
                #[allow(unused_imports)]
                use ::pilota::thrift::TOutputProtocolExt;
                let struct_ident = ::pilota::thrift::TStructIdentifier { name: "S0x10" };

                __protocol.write_struct_begin(&struct_ident)?;
                if let Some(value) = self.f1.as_ref() {
                    __protocol.write_btree_map_field(
                        5,
                        ::pilota::thrift::TType::Binary,
                        ::pilota::thrift::TType::I32,
                        &value,
                        |__protocol, key| {
                            __protocol.write_faststr((key).clone())?;
                            ::std::result::Result::Ok(())
                        },
                        |__protocol, val| {
                            __protocol.write_i32(*val)?;
                            ::std::result::Result::Ok(())
                        },
                    )?;
                }
                if let Some(value) = self.f2.as_ref() {
                    __protocol.write_struct_field(20, value, ::pilota::thrift::TType::Struct)?;
                }
                if let Some(value) = self.f3.as_ref() {
                    __protocol.write_struct_field(21, value, ::pilota::thrift::TType::Struct)?;
                }
                for bytes in self._unknown_fields.list.iter() {
                    __protocol.write_bytes_without_len(bytes.clone());
                }
                __protocol.write_field_stop()?;
                __protocol.write_struct_end()?;
                ::std::result::Result::Ok(())
            }

            fn decode<T: ::pilota::thrift::TInputProtocol>(
                __protocol: &mut T,
            ) -> ::std::result::Result<Self, ::pilota::thrift::ThriftException> {
                #[allow(unused_imports)]
                use ::pilota::{thrift::TLengthProtocolExt, Buf};

                let mut var_5 = None;
                let mut var_20 = None;
                let mut var_21 = None;
                let mut _unknown_fields = ::pilota::LinkedBytes::new();

                let mut __pilota_decoding_field_id = None;

                __protocol.read_struct_begin()?;
                if let ::std::result::Result::Err(mut err) = (|| {
                    loop {
                        let mut __pilota_offset = 0;
                        let __pilota_begin_ptr = __protocol.buf().chunk().as_ptr();
                        let field_ident = __protocol.read_field_begin()?;
                        if field_ident.field_type == ::pilota::thrift::TType::Stop {
                            __pilota_offset += __protocol.field_stop_len();
                            break;
                        } else {
                            __pilota_offset +=
                                __protocol.field_begin_len(field_ident.field_type, field_ident.id);
                        }
                        __pilota_decoding_field_id = field_ident.id;
                        match field_ident.id {
                            Some(5) if field_ident.field_type == ::pilota::thrift::TType::Map => {
                                var_5 = Some({
                                    let map_ident = __protocol.read_map_begin()?;
                                    let mut val = ::std::collections::BTreeMap::new();
                                    for _ in 0..map_ident.size {
                                        val.insert(
                                            __protocol.read_faststr()?,
                                            __protocol.read_i32()?,
                                        );
                                    }
                                    __protocol.read_map_end()?;
                                    val
                                });
                            }
                            Some(20)
                                if field_ident.field_type == ::pilota::thrift::TType::Struct =>
                            {
                                var_20 = Some(::pilota::thrift::Message::decode(__protocol)?);
                            }
                            Some(21)
                                if field_ident.field_type == ::pilota::thrift::TType::Struct =>
                            {
                                var_21 = Some(::pilota::thrift::Message::decode(__protocol)?);
                            }
                            _ => {
                                __pilota_offset += __protocol.skip(field_ident.field_type)?;
                                _unknown_fields.push_back(
                                    __protocol
                                        .get_bytes(Some(__pilota_begin_ptr), __pilota_offset)?,
                                );
                            }
                        }

                        __protocol.read_field_end()?;
                        __pilota_offset += __protocol.field_end_len();
                    }
                    ::std::result::Result::Ok::<_, ::pilota::thrift::ThriftException>(())
                })() {
                    if let Some(field_id) = __pilota_decoding_field_id {
                        err.prepend_msg(&format!(
                            "decode struct `S0x10` field(#{}) failed, caused by: ",
                            field_id
                        ));
                    }
                    return ::std::result::Result::Err(err);
                };
                __protocol.read_struct_end()?;

                let data = Self {
                    f1: var_5,
                    f2: var_20,
                    f3: var_21,
                    _unknown_fields,
                };
                ::std::result::Result::Ok(data)
            }

            fn decode_async<'a, T: ::pilota::thrift::TAsyncInputProtocol>(
                __protocol: &'a mut T,
            ) -> ::std::pin::Pin<
                ::std::boxed::Box<
                    dyn ::std::future::Future<
                            Output = ::std::result::Result<Self, ::pilota::thrift::ThriftException>,
                        > + Send
                        + 'a,
                >,
            > {
                ::std::boxed::Box::pin(async move {
                    let mut var_5 = None;
                    let mut var_20 = None;
                    let mut var_21 = None;

                    let mut __pilota_decoding_field_id = None;

                    __protocol.read_struct_begin().await?;
                    if let ::std::result::Result::Err(mut err) = async {
                        loop {
                            let field_ident = __protocol.read_field_begin().await?;
                            if field_ident.field_type == ::pilota::thrift::TType::Stop {
                                break;
                            } else {
                            }
                            __pilota_decoding_field_id = field_ident.id;
                            match field_ident.id {
                                Some(5)
                                    if field_ident.field_type == ::pilota::thrift::TType::Map =>
                                {
                                    var_5 = Some({
                                        let map_ident = __protocol.read_map_begin().await?;
                                        let mut val = ::std::collections::BTreeMap::new();
                                        for _ in 0..map_ident.size {
                                            val.insert(
                                                __protocol.read_faststr().await?,
                                                __protocol.read_i32().await?,
                                            );
                                        }
                                        __protocol.read_map_end().await?;
                                        val
                                    });
                                }
                                Some(20)
                                    if field_ident.field_type
                                        == ::pilota::thrift::TType::Struct =>
                                {
                                    var_20 = Some(
                                        <U1 as ::pilota::thrift::Message>::decode_async(__protocol)
                                            .await?,
                                    );
                                }
                                Some(21)
                                    if field_ident.field_type
                                        == ::pilota::thrift::TType::Struct =>
                                {
                                    var_21 = Some(
                                        <Leaf1 as ::pilota::thrift::Message>::decode_async(
                                            __protocol,
                                        )
                                        .await?,
                                    );
                                }
                                _ => {
                                    __protocol.skip(field_ident.field_type).await?;
                                }
                            }

                            __protocol.read_field_end().await?;
                        }
                        ::std::result::Result::Ok::<_, ::pilota::thrift::ThriftException>(())
                    }
                    .await
                    {
                        if let Some(field_id) = __pilota_decoding_field_id {
                            err.prepend_msg(&format!(
                                "decode struct `S0x10` field(#{}) failed, caused by: ",
                                field_id
                            ));
                        }
                        return ::std::result::Result::Err(err);
                    };
                    __protocol.read_struct_end().await?;

                    let data = Self {
                        f1: var_5,
                        f2: var_20,
                        f3: var_21,
                        _unknown_fields: ::pilota::LinkedBytes::new(),
                    };
                    ::std::result::Result::Ok(data)
                })
            }

            fn size<T: ::pilota::thrift::TLengthProtocol>(&self, __protocol: &mut T) -> usize {
                #[allow(unused_imports)]
                use ::pilota::thrift::TLengthProtocolExt;
                __protocol.struct_begin_len(&::pilota::thrift::TStructIdentifier { name: "S0x10" })
                    + self.f1.as_ref().map_or(0, |value| {
                        __protocol.btree_map_field_len(
                            Some(5),
                            ::pilota::thrift::TType::Binary,
                            ::pilota::thrift::TType::I32,
                            value,
                            |__protocol, key| __protocol.faststr_len(key),
                            |__protocol, val| __protocol.i32_len(*val),
                        )
                    })
                    + self
                        .f2
                        .as_ref()
                        .map_or(0, |value| __protocol.struct_field_len(Some(20), value))
                    + self
                        .f3
                        .as_ref()
                        .map_or(0, |value| __protocol.struct_field_len(Some(21), value))
                    + self._unknown_fields.size()
                    + __protocol.field_stop_len()
                    + __protocol.struct_end_len()
            }
        }
        #[derive(PartialOrd, Hash, Eq, Ord, Debug, Default, Clone, PartialEq)]
        pub struct MutA {
            pub b: ::std::option::Option<::std::boxed::Box<MutB>>,

            pub x: ::std::option::Option<i16>,
            pub _unknown_fields: ::pilota::LinkedBytes,
        }
        impl ::pilota::thrift::Message for MutA {
            fn encode<T: ::pilota::thrift::TOutputProtocol>(
                &self,
                __protocol: &mut T,
            ) -> ::std::result::Result<(), ::pilota::thrift::ThriftException> {
                #[allow(unused_imports)]
                use ::pilota::thrift::TOutputProtocolExt;
                let struct_ident = ::pilota::thrift::TStructIdentifier { name: "MutA" };

                __protocol.write_struct_begin(&struct_ident)?;
                if let Some(value) = self.b.as_ref() {
                    __protocol.write_struct_field(1, value, ::pilota::thrift::TType::Struct)?;
                }
                if let Some(value) = self.x.as_ref() {
                    __protocol.write_i16_field(2, *value)?;
                }
                for bytes in self._unknown_fields.list.iter() {
                    __protocol.write_bytes_without_len(bytes.clone());
                }
                __protocol.write_field_stop()?;
                __protocol.write_struct_end()?;
                ::std::result::Result::Ok(())
            }

            fn decode<T: ::pilota::thrift::TInputProtocol>(
                __protocol: &mut T,
            ) -> ::std::result::Result<Self, ::pilota::thrift::ThriftException> {
                #[allow(unused_imports)]
                use ::pilota::{thrift::TLengthProtocolExt, Buf};

                let mut var_1 = None;
                let mut var_2 = None;
                let mut _unknown_fields = ::pilota::LinkedBytes::new();

                let mut __pilota_decoding_field_id = None;

                __protocol.read_struct_begin()?;
                if let ::std::result::Result::Err(mut err) = (|| {
                    loop {
                        let mut __pilota_offset = 0;
                        let __pilota_begin_ptr = __protocol.buf().chunk().as_ptr();
                        let field_ident = __protocol.read_field_begin()?;
                        if field_ident.field_type == ::pilota::thrift::TType::Stop {
                            __pilota_offset += __protocol.field_stop_len();
                            break;
                        } else {
                            __pilota_offset +=
                                __protocol.field_begin_len(field_ident.field_type, field_ident.id);
                        }
                        __pilota_decoding_field_id = field_ident.id;
                        match field_ident.id {
                            Some(1)
                                if field_ident.field_type == ::pilota::thrift::TType::Struct =>
                            {
                                var_1 = Some(::std::boxed::Box::new(
                                    ::pilota::thrift::Message::decode(__protocol)?,
                                ));
                            }
                            Some(2) if field_ident.field_type == ::pilota::thrift::TType::I16 => {
                                var_2 = Some(__protocol.read_i16()?);
                            }
                            _ => {
                                __pilota_offset += __protocol.skip(field_ident.field_type)?;
                                _unknown_fields.push_back(
                                    __protocol
                                        .get_bytes(Some(__pilota_begin_ptr), __pilota_offset)?,
                                );
                            }
                        }

                        __protocol.read_field_end()?;
                        __pilota_offset += __protocol.field_end_len();
                    }
                    ::std::result::Result::Ok::<_, ::pilota::thrift::ThriftException>(())
                })() {
                    if let Some(field_id) = __pilota_decoding_field_id {
                        err.prepend_msg(&format!(
                            "decode struct `MutA` field(#{}) failed, caused by: ",
                            field_id
                        ));
                    }
                    return ::std::result::Result::Err(err);
                };
                __protocol.read_struct_end()?;

                let data = Self {
                    b: var_1,
                    x: var_2,
                    _unknown_fields,
                };
                ::std::result::Result::Ok(data)
            }

            fn decode_async<'a, T: ::pilota::thrift::TAsyncInputProtocol>(
                __protocol: &'a mut T,
            ) -> ::std::pin::Pin<
                ::std::boxed::Box<
                    dyn ::std::future::Future<
                            Output = ::std::result::Result<Self, ::pilota::thrift::ThriftException>,
                        > + Send
                        + 'a,
                >,
            > {
                ::std::boxed::Box::pin(async move {
                    let mut var_1 = None;
                    let mut var_2 = None;

                    let mut __pilota_decoding_field_id = None;

                    __protocol.read_struct_begin().await?;
                    if let ::std::result::Result::Err(mut err) = async {
                        loop {
                            let field_ident = __protocol.read_field_begin().await?;
                            if field_ident.field_type == ::pilota::thrift::TType::Stop {
                                break;
                            } else {
                            }
                            __pilota_decoding_field_id = field_ident.id;
                            match field_ident.id {
                                Some(1)
                                    if field_ident.field_type
                                        == ::pilota::thrift::TType::Struct =>
                                {
                                    var_1 = Some(::std::boxed::Box::new(
                                        <MutB as ::pilota::thrift::Message>::decode_async(
                                            __protocol,
                                        )
                                        .await?,
                                    ));
                                }
                                Some(2)
                                    if field_ident.field_type == ::pilota::thrift::TType::I16 =>
                                {
                                    var_2 = Some(__protocol.read_i16().await?);
                                }
                                _ => {
                                    __protocol.skip(field_ident.field_type).await?;
                                }
                            }

                            __protocol.read_field_end().await?;
                        }
                        ::std::result::Result::Ok::<_, ::pilota::thrift::ThriftException>(())
                    }
                    .await
                    {
                        if let Some(field_id) = __pilota_decoding_field_id {
                            err.prepend_msg(&format!(
                                "decode struct `MutA` field(#{}) failed, caused by: ",
                                field_id
                            ));
                        }
                        return ::std::result::Result::Err(err);
                    };
                    __protocol.read_struct_end().await?;

                    let data = Self {
                        b: var_1,
                        x: var_2,
                        _unknown_fields: ::pilota::LinkedBytes::new(),
                    };
                    ::std::result::Result::Ok(data)
                })
            }

            fn size<T: ::pilota::thrift::TLengthProtocol>(&self, __protocol: &mut T) -> usize {
                #[allow(unused_imports)]
                use ::pilota::thrift::TLengthProtocolExt;
                __protocol.struct_begin_len(&::pilota::thrift::TStructIdentifier { name: "MutA" })
                    + self
                        .b
                        .as_ref()
                        .map_or(0, |value| __protocol.struct_field_len(Some(1), value))
                    + self
                        .x
                        .as_ref()
                        .map_or(0, |value| __protocol.i16_field_len(Some(2), *value))
                    + self._unknown_fields.size()
                    + __protocol.field_stop_len()
                    + __protocol.struct_end_len()
            }
        }
        #[derive(PartialOrd, Hash, Eq, Ord, Debug, Default, Clone, PartialEq)]
        pub struct TdTdI32(pub TdI32);

        impl ::std::ops::Deref for TdTdI32 {
            type Target = TdI32;

            fn deref(&self) -> &Self::Target {
                &self.0
            }
        }

        impl From<TdI32> for TdTdI32 {
            fn from(v: TdI32) -> Self {
                Self(v)
            }
        }

        impl ::pilota::thrift::Message for TdTdI32 {
            fn encode<T: ::pilota::thrift::TOutputProtocol>(
                &self,
                __protocol: &mut T,
            ) -> ::std::result::Result<(), ::pilota::thrift::ThriftException> {
                #[allow(unused_imports)]
                use ::pilota::thrift::TOutputProtocolExt;
                __protocol.write_struct((&**self))?;
                ::std::result::Result::Ok(())
            }

            fn decode<T: ::pilota::thrift::TInputProtocol>(
                __protocol: &mut T,
            ) -> ::std::result::Result<Self, ::pilota::thrift::ThriftException> {
                #[allow(unused_imports)]
                use ::pilota::{thrift::TLengthProtocolExt, Buf};
                ::std::result::Result::Ok(TdTdI32(::pilota::thrift::Message::decode(__protocol)?))
            }

            fn decode_async<'a, T: ::pilota::thrift::TAsyncInputProtocol>(
                __protocol: &'a mut T,
            ) -> ::std::pin::Pin<
                ::std::boxed::Box<
                    dyn ::std::future::Future<
                            Output = ::std::result::Result<Self, ::pilota::thrift::ThriftException>,
                        > + Send
                        + 'a,
                >,
            > {
                ::std::boxed::Box::pin(async move {
                    ::std::result::Result::Ok(TdTdI32(
                        <TdI32 as ::pilota::thrift::Message>::decode_async(__protocol).await?,
                    ))
                })
            }

            fn size<T: ::pilota::thrift::TLengthProtocol>(&self, __protocol: &mut T) -> usize {
                #[allow(unused_imports)]
                use ::pilota::thrift::TLengthProtocolExt;
                __protocol.struct_len(&**self)
            }
        }
        impl ::std::default::Default for Svc0McResultSend {
            fn default() -> Self {
                Svc0McResultSend::Ok(::std::default::Default::default())
            }
        }
        #[derive(PartialOrd, Hash, Eq, Ord, Debug, Clone, PartialEq)]
        pub enum Svc0McResultSend {
            Ok(::pilota::FastStr),
        }

        impl ::pilota::thrift::Message for Svc0McResultSend {
            fn encode<T: ::pilota::thrift::TOutputProtocol>(
                &self,
                __protocol: &mut T,
            ) -> ::std::result::Result<(), ::pilota::thrift::ThriftException> {
                #[allow(unused_imports)]
                use ::pilota::thrift::TOutputProtocolExt;
                __protocol.write_struct_begin(&::pilota::thrift::TStructIdentifier {
                    name: "Svc0McResultSend",
                })?;
                match self {
                    Svc0McResultSend::Ok(value) => {
                        __protocol.write_faststr_field(0, (value).clone())?;
                    }
                }
                __protocol.write_field_stop()?;
                __protocol.write_struct_end()?;
                ::std::result::Result::Ok(())
            }

            fn decode<T: ::pilota::thrift::TInputProtocol>(
                __protocol: &mut T,
            ) -> ::std::result::Result<Self, ::pilota::thrift::ThriftException> {
                #[allow(unused_imports)]
                use ::pilota::{thrift::TLengthProtocolExt, Buf};
                let mut ret = None;
                __protocol.read_struct_begin()?;
                loop {
                    let field_ident = __protocol.read_field_begin()?;
                    if field_ident.field_type == ::pilota::thrift::TType::Stop {
                        __protocol.field_stop_len();
                        break;
                    } else {
                        __protocol.field_begin_len(field_ident.field_type, field_ident.id);
                    }
                    match field_ident.id {
                        Some(0) => {
                            if ret.is_none() {
                                let field_ident = __protocol.read_faststr()?;
                                __protocol.faststr_len(&field_ident);
                                ret = Some(Svc0McResultSend::Ok(field_ident));
                            } else {
                                return ::std::result::Result::Err(
                                    ::pilota::thrift::new_protocol_exception(
                                        ::pilota::thrift::ProtocolExceptionKind::InvalidData,
                                        "received multiple fields for union from remote Message",
                                    ),
                                );
                            }
                        }
                        _ => {
                            __protocol.skip(field_ident.field_type)?;
                        }
                    }
                }
                __protocol.read_field_end()?;
                __protocol.read_struct_end()?;
                if let Some(ret) = ret {
                    ::std::result::Result::Ok(ret)
                } else {
                    ::std::result::Result::Err(::pilota::thrift::new_protocol_exception(
                        ::pilota::thrift::ProtocolExceptionKind::InvalidData,
                        "received empty union from remote Message",
                    ))
                }
            }

            fn decode_async<'a, T: ::pilota::thrift::TAsyncInputProtocol>(
                __protocol: &'a mut T,
            ) -> ::std::pin::Pin<
                ::std::boxed::Box<
                    dyn ::std::future::Future<
                            Output = ::std::result::Result<Self, ::pilota::thrift::ThriftException>,
                        > + Send
                        + 'a,
                >,
            > {
                ::std::boxed::Box::pin(async move {
                    let mut ret = None;
                    __protocol.read_struct_begin().await?;
                    loop {
                        let field_ident = __protocol.read_field_begin().await?;
                        if field_ident.field_type == ::pilota::thrift::TType::Stop {
                            break;
                        } else {
                        }
                        match field_ident.id {
                            Some(0) => {
                                if ret.is_none() {
                                    let field_ident = __protocol.read_faststr().await?;

                                    ret = Some(Svc0McResultSend::Ok(field_ident));
                                } else {
                                    return ::std::result::Result::Err(::pilota::thrift::new_protocol_exception(
                                            ::pilota::thrift::ProtocolExceptionKind::InvalidData,
                                            "received multiple fields for union from remote Message"
                                        ));
                                }
                            }
                            _ => {
                                __protocol.skip(field_ident.field_type).await?;
                            }
                        }
                    }
                    __protocol.read_field_end().await?;
                    __protocol.read_struct_end().await?;
                    if let Some(ret) = ret {
                        ::std::result::Result::Ok(ret)
                    } else {
                        ::std::result::Result::Err(::pilota::thrift::new_protocol_exception(
                            ::pilota::thrift::ProtocolExceptionKind::InvalidData,
                            "received empty union from remote Message",
                        ))
                    }
                })
            }

            fn size<T: ::pilota::thrift::TLengthProtocol>(&self, __protocol: &mut T) -> usize {
                #[allow(unused_imports)]
                use ::pilota::thrift::TLengthProtocolExt;
                __protocol.struct_begin_len(&::pilota::thrift::TStructIdentifier {
                    name: "Svc0McResultSend",
                }) + match self {
                    Svc0McResultSend::Ok(value) => __protocol.faststr_field_len(Some(0), value),
                } + __protocol.field_stop_len()
                    + __protocol.struct_end_len()
            }
        }
        impl ::std::default::Default for Svc0MaException {
            fn default() -> Self {
                Svc0MaException::E1(::std::default::Default::default())
            }
        }
        #[derive(PartialOrd, Hash, Eq, Ord, Debug, Clone, PartialEq)]
        pub enum Svc0MaException {
            E1(Ex1),
        }

        impl ::pilota::thrift::Message for Svc0MaException {
            fn encode<T: ::pilota::thrift::TOutputProtocol>(
                &self,
                __protocol: &mut T,
            ) -> ::std::result::Result<(), ::pilota::thrift::ThriftException> {
                #[allow(unused_imports)]
                use ::pilota::thrift::TOutputProtocolExt;
                __protocol.write_struct_begin(&::pilota::thrift::TStructIdentifier {
                    name: "Svc0MaException",
                })?;
                match self {
                    Svc0MaException::E1(value) => {
                        __protocol.write_struct_field(1, value, ::pilota::thrift::TType::Struct)?;
                    }
                }
                __protocol.write_field_stop()?;
                __protocol.write_struct_end()?;
                ::std::result::Result::Ok(())
            }

            fn decode<T: ::pilota::thrift::TInputProtocol>(
                __protocol: &mut T,
            ) -> ::std::result::Result<Self, ::pilota::thrift::ThriftException> {
                #[allow(unused_imports)]
                use ::pilota::{thrift::TLengthProtocolExt, Buf};
                let mut ret = None;
                __protocol.read_struct_begin()?;
                loop {
                    let field_ident = __protocol.read_field_begin()?;
                    if field_ident.field_type == ::pilota::thrift::TType::Stop {
                        __protocol.field_stop_len();
                        break;
                    } else {
                        __protocol.field_begin_len(field_ident.field_type, field_ident.id);
                    }
                    match field_ident.id {
                        Some(1) => {
                            if ret.is_none() {
                                let field_ident = ::pilota::thrift::Message::decode(__protocol)?;
                                __protocol.struct_len(&field_ident);
                                ret = Some(Svc0MaException::E1(field_ident));
                            } else {
                                return ::std::result::Result::Err(
                                    ::pilota::thrift::new_protocol_exception(
                                        ::pilota::thrift::ProtocolExceptionKind::InvalidData,
                                        "received multiple fields for union from remote Message",
                                    ),
                                );
                            }
                        }
                        _ => {
                            __protocol.skip(field_ident.field_type)?;
                        }
                    }
                }
                __protocol.read_field_end()?;
                __protocol.read_struct_end()?;
                if let Some(ret) = ret {
                    ::std::result::Result::Ok(ret)
                } else {
                    ::std::result::Result::Err(::pilota::thrift::new_protocol_exception(
                        ::pilota::thrift::ProtocolExceptionKind::InvalidData,
                        "received empty union from remote Message",
                    ))
                }
            }

            fn decode_async<'a, T: ::pilota::thrift::TAsyncInputProtocol>(
                __protocol: &'a mut T,
            ) -> ::std::pin::Pin<
                ::std::boxed::Box<
                    dyn ::std::future::Future<
                            Output = ::std::result::Result<Self, ::pilota::thrift::ThriftException>,
                        > + Send
                        + 'a,
                >,
            > {
                ::std::boxed::Box::pin(async move {
                    let mut ret = None;
                    __protocol.read_struct_begin().await?;
                    loop {
                        let field_ident = __protocol.read_field_begin().await?;
                        if field_ident.field_type == ::pilota::thrift::TType::Stop {
                            break;
                        } else {
                        }
                        match field_ident.id {
                            Some(1) => {
                                if ret.is_none() {
                                    let field_ident =
                                        <Ex1 as ::pilota::thrift::Message>::decode_async(
                                            __protocol,
                                        )
                                        .await?;

                                    ret = Some(Svc0MaException::E1(field_ident));
                                } else {
                                    return ::std::result::Result::Err(::pilota::thrift::new_protocol_exception(
                                            ::pilota::thrift::ProtocolExceptionKind::InvalidData,
                                            "received multiple fields for union from remote Message"
                                        ));
                                }
                            }
                            _ => {
                                __protocol.skip(field_ident.field_type).await?;
                            }
                        }
                    }
                    __protocol.read_field_end().await?;
                    __protocol.read_struct_end().await?;
                    if let Some(ret) = ret {
                        ::std::result::Result::Ok(ret)
                    } else {
                        ::std::result::Result::Err(::pilota::thrift::new_protocol_exception(
                            ::pilota::thrift::ProtocolExceptionKind::InvalidData,
                            "received empty union from remote Message",
                        ))
                    }
                })
            }

            fn size<T: ::pilota::thrift::TLengthProtocol>(&self, __protocol: &mut T) -> usize {
                #[allow(unused_imports)]
                use ::pilota::thrift::TLengthProtocolExt;
                __protocol.struct_begin_len(&::pilota::thrift::TStructIdentifier {
                    name: "Svc0MaException",
                }) + match self {
                    Svc0MaException::E1(value) => __protocol.struct_field_len(Some(1), value),
                } + __protocol.field_stop_len()
                    + __protocol.struct_end_len()
            }
        }
        impl ::std::default::Default for S0x5 {
            fn default() -> Self {
                S0x5 {
                    f1: ::std::default::Default::default(),
                    f2: ::std::default::Default::default(),
                    f3: Some(-128i8),
                    _unknown_fields: ::pilota::LinkedBytes::new(),
                }
            }
        }
        #[derive(Debug, Clone, PartialEq)]
        pub struct S0x5 {
            pub f1: ::std::option::Option<::std::vec::Vec<Leaf1>>,

            pub f2: ::pilota::AHashMap<i64, Leaf1>,

            pub f3: ::std::option::Option<i8>,
            pub _unknown_fields: ::pilota::LinkedBytes,
        }
        impl ::pilota::thrift::Message for S0x5 {
            fn encode<T: ::pilota::thrift::TOutputProtocol>(
                &self,
                __protocol: &mut T,
            ) -> ::std::result::Result<(), ::pilota::thrift::ThriftException> {
                #[allow(unused_imports)]
                use ::pilota::thrift::TOutputProtocolExt;
                let struct_ident = ::pilota::thrift::TStructIdentifier { name: "S0x5" };

                __protocol.write_struct_begin(&struct_ident)?;
                if let Some(value) = self.f1.as_ref() {
                    __protocol.write_list_field(
                        1,
                        ::pilota::thrift::TType::Struct,
                        &value,
                        |__protocol, val| {
                            __protocol.write_struct(val)?;
                            ::std::result::Result::Ok(())
                        },
                    )?;
                }
                __protocol.write_map_field(
                    2,
                    ::pilota::thrift::TType::I64,
                    ::pilota::thrift::TType::Struct,
                    &&self.f2,
                    |__protocol, key| {
                        __protocol.write_i64(*key)?;
                        ::std::result::Result::Ok(())
                    },
                    |__protocol, val| {
                        __protocol.write_struct(val)?;
                        ::std::result::Result::Ok(())
                    },
                )?;
                if let Some(value) = self.f3.as_ref() {
                    __protocol.write_i8_field(32767, *value)?;
                }
                for bytes in self._unknown_fields.list.iter() {
                    __protocol.write_bytes_without_len(bytes.clone());
                }
                __protocol.write_field_stop()?;
                __protocol.write_struct_end()?;
                ::std::result::Result::Ok(())
            }

            fn decode<T: ::pilota::thrift::TInputProtocol>(
                __protocol: &mut T,
            ) -> ::std::result::Result<Self, ::pilota::thrift::ThriftException> {
                #[allow(unused_imports)]
                use ::pilota::{thrift::TLengthProtocolExt, Buf};

                let mut var_1 = None;
                let mut var_2 = None;
                let mut var_32767 = Some(-128i8);
                let mut _unknown_fields = ::pilota::LinkedBytes::new();

                let mut __pilota_decoding_field_id = None;

                __protocol.read_struct_begin()?;
                if let ::std::result::Result::Err(mut err) = (|| {
                    loop {
                        let mut __pilota_offset = 0;
                        let __pilota_begin_ptr = __protocol.buf().chunk().as_ptr();
                        let field_ident = __protocol.read_field_begin()?;
                        if field_ident.field_type == ::pilota::thrift::TType::Stop {
                            __pilota_offset += __protocol.field_stop_len();
                            break;
                        } else {
                            __pilota_offset +=
                                __protocol.field_begin_len(field_ident.field_type, field_ident.id);
                        }
                        __pilota_decoding_field_id = field_ident.id;
                        match field_ident.id {
                            Some(1) if field_ident.field_type == ::pilota::thrift::TType::List => {
                                var_1 = Some(unsafe {
                                    let list_ident = __protocol.read_list_begin()?;
                                    let mut val: ::std::vec::Vec<Leaf1> =
                                        ::std::vec::Vec::with_capacity(list_ident.size);
                                    for i in 0..list_ident.size {
                                        val.as_mut_ptr()
                                            .offset(i as isize)
                                            .write(::pilota::thrift::Message::decode(__protocol)?);
                                    }
                                    val.set_len(list_ident.size);
                                    __protocol.read_list_end()?;
                                    val
                                });
                            }
                            Some(2) if field_ident.field_type == ::pilota::thrift::TType::Map => {
                                var_2 = Some({
                                    let map_ident = __protocol.read_map_begin()?;
                                    let mut val = ::pilota::AHashMap::with_capacity(map_ident.size);
                                    for _ in 0..map_ident.size {
                                        val.insert(
                                            __protocol.read_i64()?,
                                            ::pilota::thrift::Message::decode(__protocol)?,
                                        );
                                    }
                                    __protocol.read_map_end()?;
                                    val
                                });
                            }
                            Some(32767)
                                if field_ident.field_type == ::pilota::thrift::TType::I8 =>
                            {
                                var_32767 = Some(__protocol.read_i8()?);
                            }
                            _ => {
                                __pilota_offset += __protocol.skip(field_ident.field_type)?;
                                _unknown_fields.push_back(
                                    __protocol
                                        .get_bytes(Some(__pilota_begin_ptr), __pilota_offset)?,
                                );
                            }
                        }

                        __protocol.read_field_end()?;
                        __pilota_offset += __protocol.field_end_len();
                    }
                    ::std::result::Result::Ok::<_, ::pilota::thrift::ThriftException>(())
                })() {
                    if let Some(field_id) = __pilota_decoding_field_id {
                        err.prepend_msg(&format!(
                            "decode struct `S0x5` field(#{}) failed, caused by: ",
                            field_id
                        ));
                    }
                    return ::std::result::Result::Err(err);
                };
                __protocol.read_struct_end()?;

                let Some(var_2) = var_2 else {
                    return ::std::result::Result::Err(::pilota::thrift::new_protocol_exception(
                        ::pilota::thrift::ProtocolExceptionKind::InvalidData,
                        "field f2 is required".to_string(),
                    ));
                };

                let data = Self {
                    f1: var_1,
                    f2: var_2,
                    f3: var_32767,
                    _unknown_fields,
                };
                ::std::result::Result::Ok(data)
            }

            fn decode_async<'a, T: ::pilota::thrift::TAsyncInputProtocol>(
                __protocol: &'a mut T,
            ) -> ::std::pin::Pin<
                ::std::boxed::Box<
                    dyn ::std::future::Future<
                            Output = ::std::result::Result<Self, ::pilota::thrift::ThriftException>,
                        > + Send
                        + 'a,
                >,
            > {
                ::std::boxed::Box::pin(async move {
                    let mut var_1 = None;
                    let mut var_2 = None;
                    let mut var_32767 = Some(-128i8);

                    let mut __pilota_decoding_field_id = None;

                    __protocol.read_struct_begin().await?;
                    if let ::std::result::Result::Err(mut err) = async {
                        loop {
                            let field_ident = __protocol.read_field_begin().await?;
                            if field_ident.field_type == ::pilota::thrift::TType::Stop {
                                break;
                            } else {
                            }
                            __pilota_decoding_field_id = field_ident.id;
                            match field_ident.id {
                                Some(1)
                                    if field_ident.field_type == ::pilota::thrift::TType::List =>
                                {
                                    var_1 = Some({
                                        let list_ident = __protocol.read_list_begin().await?;
                                        let mut val =
                                            ::std::vec::Vec::with_capacity(list_ident.size);
                                        for _ in 0..list_ident.size {
                                            val.push(
                                                <Leaf1 as ::pilota::thrift::Message>::decode_async(
                                                    __protocol,
                                                )
                                                .await?,
                                            );
                                        }
                                        __protocol.read_list_end().await?;
                                        val
                                    });
                                }
                                Some(2)
                                    if field_ident.field_type == ::pilota::thrift::TType::Map =>
                                {
                                    var_2 = Some({
                                        let map_ident = __protocol.read_map_begin().await?;
                                        let mut val =
                                            ::pilota::AHashMap::with_capacity(map_ident.size);
                                        for _ in 0..map_ident.size {
                                            val.insert(
                                                __protocol.read_i64().await?,
                                                <Leaf1 as ::pilota::thrift::Message>::decode_async(
                                                    __protocol,
                                                )
                                                .await?,
                                            );
                                        }
                                        __protocol.read_map_end().await?;
                                        val
                                    });
                                }
                                Some(32767)
                                    if field_ident.field_type == ::pilota::thrift::TType::I8 =>
                                {
                                    var_32767 = Some(__protocol.read_i8().await?);
                                }
                                _ => {
                                    __protocol.skip(field_ident.field_type).await?;
                                }
                            }

                            __protocol.read_field_end().await?;
                        }
                        ::std::result::Result::Ok::<_, ::pilota::thrift::ThriftException>(())
                    }
                    .await
                    {
                        if let Some(field_id) = __pilota_decoding_field_id {
                            err.prepend_msg(&format!(
                                "decode struct `S0x5` field(#{}) failed, caused by: ",
                                field_id
                            ));
                        }
                        return ::std::result::Result::Err(err);
                    };
                    __protocol.read_struct_end().await?;

                    let Some(var_2) = var_2 else {
                        return ::std::result::Result::Err(
                            ::pilota::thrift::new_protocol_exception(
                                ::pilota::thrift::ProtocolExceptionKind::InvalidData,
                                "field f2 is required".to_string(),
                            ),
                        );
                    };

                    let data = Self {
                        f1: var_1,
                        f2: var_2,
                        f3: var_32767,
                        _unknown_fields: ::pilota::LinkedBytes::new(),
                    };
                    ::std::result::Result::Ok(data)
                })
            }

            fn size<T: ::pilota::thrift::TLengthProtocol>(&self, __protocol: &mut T) -> usize {
                #[allow(unused_imports)]
                use ::pilota::thrift::TLengthProtocolExt;
                __protocol.struct_begin_len(&::pilota::thrift::TStructIdentifier { name: "S0x5" })
                    + self.f1.as_ref().map_or(0, |value| {
                        __protocol.list_field_len(
                            Some(1),
                            ::pilota::thrift::TType::Struct,
                            value,
                            |__protocol, el| __protocol.struct_len(el),
                        )
                    })
                    + __protocol.map_field_len(
                        Some(2),
                        ::pilota::thrift::TType::I64,
                        ::pilota::thrift::TType::Struct,
                        &self.f2,
                        |__protocol, key| __protocol.i64_len(*key),
                        |__protocol, val| __protocol.struct_len(val),
                    )
                    + self
                        .f3
                        .as_ref()
                        .map_or(0, |value| __protocol.i8_field_len(Some(32767), *value))
                    + self._unknown_fields.size()
                    + __protocol.field_stop_len()
                    + __protocol.struct_end_len()
            }
        }
        impl ::std::default::Default for S0x12 {
            fn default() -> Self {
                S0x12 {
                    f1: ::std::default::Default::default(),
                    f2: Some(true),
                    f3: ::std::default::Default::default(),
                    _unknown_fields: ::pilota::LinkedBytes::new(),
                }
            }
        }
        #[derive(PartialOrd, Hash, Eq, Ord, Debug, Clone, PartialEq)]
        pub struct S0x12 {
            pub f1: ::std::option::Option<::pilota::FastStr>,

            pub f2: ::std::option::Option<bool>,

            pub f3: ::std::vec::Vec<E1>,
            pub _unknown_fields: ::pilota::LinkedBytes,
        }
        impl ::pilota::thrift::Message for S0x12 {
            fn encode<T: ::pilota::thrift::TOutputProtocol>(
                &self,
                __protocol: &mut T,
            ) -> ::std::result::Result<(), ::pilota::thrift::ThriftException> {
                #[allow(unused_imports)]
                use ::pilota::thrift::TOutputProtocolExt;
                let struct_ident = ::pilota::thrift::TStructIdentifier { name: "S0x12" };

                __protocol.write_struct_begin(&struct_ident)?;
                if let Some(value) = self.f1.as_ref() {
                    __protocol.write_faststr_field(1, (value).clone())?;
                }
                if let Some(value) = self.f2.as_ref() {
                    __protocol.write_bool_field(2, *value)?;
                }
                __protocol.write_list_field(
                    3,
                    ::pilota::thrift::TType::I32,
                    &&self.f3,
                    |__protocol, val| {
                        __protocol.write_struct(val)?;
                        ::std::result::Result::Ok(())
                    },
                )?;
                for bytes in self._unknown_fields.list.iter() {
                    __protocol.write_bytes_without_len(bytes.clone());
                }
                __protocol.write_field_stop()?;
                __protocol.write_struct_end()?;
                ::std::result::Result::Ok(())
            }

            fn decode<T: ::pilota::thrift::TInputProtocol>(
                __protocol: &mut T,
            ) -> ::std::result::Result<Self, ::pilota::thrift::ThriftException> {
                #[allow(unused_imports)]
                use ::pilota::{thrift::TLengthProtocolExt, Buf};

                let mut var_1 = None;
                let mut var_2 = Some(true);
                let mut var_3 = None;
                let mut _unknown_fields = ::pilota::LinkedBytes::new();

                let mut __pilota_decoding_field_id = None;

                __protocol.read_struct_begin()?;
                if let ::std::result::Result::Err(mut err) = (|| {
                    loop {
                        let mut __pilota_offset = 0;
                        let __pilota_begin_ptr = __protocol.buf().chunk().as_ptr();
                        let field_ident = __protocol.read_field_begin()?;
                        if field_ident.field_type == ::pilota::thrift::TType::Stop {
                            __pilota_offset += __protocol.field_stop_len();
                            break;
                        } else {
                            __pilota_offset +=
                                __protocol.field_begin_len(field_ident.field_type, field_ident.id);
                        }
                        __pilota_decoding_field_id = field_ident.id;
                        match field_ident.id {
                            Some(1)
                                if field_ident.field_type == ::pilota::thrift::TType::Binary =>
                            {
                                var_1 = Some(__protocol.read_faststr()?);
                            }
                            Some(2) if field_ident.field_type == ::pilota::thrift::TType::Bool => {
                                var_2 = Some(__protocol.read_bool()?);
                            }
                            Some(3) if field_ident.field_type == ::pilota::thrift::TType::List => {
                                var_3 = Some(unsafe {
                                    let list_ident = __protocol.read_list_begin()?;
                                    let mut val: ::std::vec::Vec<E1> =
                                        ::std::vec::Vec::with_capacity(list_ident.size);
                                    for i in 0..list_ident.size {
                                        val.as_mut_ptr()
                                            .offset(i as isize)
                                            .write(::pilota::thrift::Message::decode(__protocol)?);
                                    }
                                    val.set_len(list_ident.size);
                                    __protocol.read_list_end()?;
                                    val
                                });
                            }
                            _ => {
                                __pilota_offset += __protocol.skip(field_ident.field_type)?;
                                _unknown_fields.push_back(
                                    __protocol
                                        .get_bytes(Some(__pilota_begin_ptr), __pilota_offset)?,
                                );
                            }
                        }

                        __protocol.read_field_end()?;
                        __pilota_offset += __protocol.field_end_len();
                    }
                    ::std::result::Result::Ok::<_, ::pilota::thrift::ThriftException>(())
                })() {
                    if let Some(field_id) = __pilota_decoding_field_id {
                        err.prepend_msg(&format!(
                            "decode struct `S0x12` field(#{}) failed, caused by: ",
                            field_id
                        ));
                    }
                    return ::std::result::Result::Err(err);
                };
                __protocol.read_struct_end()?;

                let Some(var_3) = var_3 else {
                    return ::std::result::Result::Err(::pilota::thrift::new_protocol_exception(
                        ::pilota::thrift::ProtocolExceptionKind::InvalidData,
                        "field f3 is required".to_string(),
                    ));
                };

                let data = Self {
                    f1: var_1,
                    f2: var_2,
                    f3: var_3,
                    _unknown_fields,
                };
                ::std::result::Result::Ok(data)
            }

            fn decode_async<'a, T: ::pilota::thrift::TAsyncInputProtocol>(
                __protocol: &'a mut T,
            ) -> ::std::pin::Pin<
                ::std::boxed::Box<
                    dyn ::std::future::Future<
                            Output = ::std::result::Result<Self, ::pilota::thrift::ThriftException>,
                        > + Send
                        + 'a,
                >,
            > {
                ::std::boxed::Box::pin(async move {
                    let mut var_1 = None;
                    let mut var_2 = Some(true);
                    let mut var_3 = None;

                    let mut __pilota_decoding_field_id = None;

                    __protocol.read_struct_begin().await?;
                    if let ::std::result::Result::Err(mut err) = async {
                        loop {
                            let field_ident = __protocol.read_field_begin().await?;
                            if field_ident.field_type == ::pilota::thrift::TType::Stop {
                                break;
                            } else {
                            }
                            __pilota_decoding_field_id = field_ident.id;
                            match field_ident.id {
                                Some(1)
                                    if field_ident.field_type
                                        == ::pilota::thrift::TType::Binary =>
                                {
                                    var_1 = Some(__protocol.read_faststr().await?);
                                }
                                Some(2)
                                    if field_ident.field_type == ::pilota::thrift::TType::Bool =>
                                {
                                    var_2 = Some(__protocol.read_bool().await?);
                                }
                                Some(3)
                                    if field_ident.field_type == ::pilota::thrift::TType::List =>
                                {
                                    var_3 = Some({
                                        let list_ident = __protocol.read_list_begin().await?;
                                        let mut val =
                                            ::std::vec::Vec::with_capacity(list_ident.size);
                                        for _ in 0..list_ident.size {
                                            val.push(
                                                <E1 as ::pilota::thrift::Message>::decode_async(
                                                    __protocol,
                                                )
                                                .await?,
                                            );
                                        }
                                        __protocol.read_list_end().await?;
                                        val
                                    });
                                }
                                _ => {
                                    __protocol.skip(field_ident.field_type).await?;
                                }
                            }

                            __protocol.read_field_end().await?;
                        }
                        ::std::result::Result::Ok::<_, ::pilota::thrift::ThriftException>(())
                    }
                    .await
                    {
                        if let Some(field_id) = __pilota_decoding_field_id {
                            err.prepend_msg(&format!(
                                "decode struct `S0x12` field(#{}) failed, caused by: ",
                                field_id
                            ));
                        }
                        return ::std::result::Result::Err(err);
                    };
                    __protocol.read_struct_end().await?;

                    let Some(var_3) = var_3 else {
                        return ::std::result::Result::Err(
                            ::pilota::thrift::new_protocol_exception(
                                ::pilota::thrift::ProtocolExceptionKind::InvalidData,
                                "field f3 is required".to_string(),
                            ),
                        );
                    };

                    let data = Self {
                        f1: var_1,
                        f2: var_2,
                        f3: var_3,
                        _unknown_fields: ::pilota::LinkedBytes::new(),
                    };
                    ::std::result::Result::Ok(data)
                })
            }

            fn size<T: ::pilota::thrift::TLengthProtocol>(&self, __protocol: &mut T) -> usize {
                #[allow(unused_imports)]
                use ::pilota::thrift::TLengthProtocolExt;
                __protocol.struct_begin_len(&::pilota::thrift::TStructIdentifier { name: "S0x12" })
                    + self
                        .f1
                        .as_ref()
                        .map_or(0, |value| __protocol.faststr_field_len(Some(1), value))
                    + self
                        .f2
                        .as_ref()
                        .map_or(0, |value| __protocol.bool_field_len(Some(2), *value))
                    + __protocol.list_field_len(
                        Some(3),
                        ::pilota::thrift::TType::I32,
                        &self.f3,
                        |__protocol, el| __protocol.struct_len(el),
                    )
                    + self._unknown_fields.size()
                    + __protocol.field_stop_len()
                    + __protocol.struct_end_len()
            }
        }
        impl ::std::default::Default for S0x0 {
            fn default() -> Self {
                S0x0 {
                    f1: ::std::default::Default::default(),
                    f2: true,
                    f3: ::std::default::Default::default(),
                    _unknown_fields: ::pilota::LinkedBytes::new(),
                }
            }
        }
        #[derive(PartialOrd, Hash, Eq, Ord, Debug, Clone, PartialEq)]
        pub struct S0x0 {
            pub f1: ::std::option::Option<::std::sync::Arc<E1>>,

            pub f2: bool,

            pub f3: ::std::option::Option<::std::vec::Vec<::std::vec::Vec<::std::vec::Vec<i32>>>>,
            pub _unknown_fields: ::pilota::LinkedBytes,
        }
        impl ::pilota::thrift::Message for S0x0 {
            fn encode<T: ::pilota::thrift::TOutputProtocol>(
                &self,
                __protocol: &mut T,
            ) -> ::std::result::Result<(), ::pilota::thrift::ThriftException> {
                #[allow(unused_imports)]
                use ::pilota::thrift::TOutputProtocolExt;
                let struct_ident = ::pilota::thrift::TStructIdentifier { name: "S0x0" };

                __protocol.write_struct_begin(&struct_ident)?;
                if let Some(value) = self.f1.as_ref() {
                    __protocol.write_i32_field(1, (value).inner())?;
                }
                __protocol.write_bool_field(2, *&self.f2)?;
                if let Some(value) = self.f3.as_ref() {
                    __protocol.write_list_field(
                        3,
                        ::pilota::thrift::TType::List,
                        &value,
                        |__protocol, val| {
                            __protocol.write_list(
                                ::pilota::thrift::TType::List,
                                &val,
                                |__protocol, val| {
                                    __protocol.write_list(
                                        ::pilota::thrift::TType::I32,
                                        &val,
                                        |__protocol, val| {
                                            __protocol.write_i32(*val)?;
                                            ::std::result::Result::Ok(())
                                        },
                                    )?;
                                    ::std::result::Result::Ok(())
                                },
                            )?;
                            ::std::result::Result::Ok(())
                        },
                    )?;
                }
                for bytes in self._unknown_fields.list.iter() {
                    __protocol.write_bytes_without_len(bytes.clone());
                }
                __protocol.write_field_stop()?;
                __protocol.write_struct_end()?;
                ::std::result::Result::Ok(())
            }

            fn decode<T: ::pilota::thrift::TInputProtocol>(
                __protocol: &mut T,
            ) -> ::std::result::Result<Self, ::pilota::thrift::ThriftException> {
                #[allow(unused_imports)]
                use ::pilota::{thrift::TLengthProtocolExt, Buf};

                let mut __pilota_fields_num = 0;
                let mut var_1 = None;
                __pilota_fields_num += 1;
                let mut var_2 = true;
                __pilota_fields_num += 1;
                let mut var_3 = None;
                __pilota_fields_num += 1;
                let mut _unknown_fields = ::pilota::LinkedBytes::new();

                let mut __pilota_decoding_field_id = None;

                __protocol.read_struct_begin()?;
                if let ::std::result::Result::Err(mut err) = (|| {
                    loop {
                        if __pilota_fields_num == 0 {
                            let __pilota_remaining = __protocol.buf().remaining();
                            _unknown_fields
                                .push_back(__protocol.get_bytes(None, __pilota_remaining - 2)?);
                            break;
                        }
                        let mut __pilota_offset = 0;
                        let __pilota_begin_ptr = __protocol.buf().chunk().as_ptr();
                        let field_ident = __protocol.read_field_begin()?;
                        if field_ident.field_type == ::pilota::thrift::TType::Stop {
                            __pilota_offset += __protocol.field_stop_len();
                            break;
                        } else {
                            __pilota_offset +=
                                __protocol.field_begin_len(field_ident.field_type, field_ident.id);
                        }
                        __pilota_decoding_field_id = field_ident.id;
                        match field_ident.id {
                            Some(1) if field_ident.field_type == ::pilota::thrift::TType::I32 => {
                                var_1 = Some(::std::sync::Arc::new(
                                    ::pilota::thrift::Message::decode(__protocol)?,
                                ));
                                __pilota_fields_num -= 1;
                            }
                            Some(2) if field_ident.field_type == ::pilota::thrift::TType::Bool => {
                                var_2 = __protocol.read_bool()?;
                                __pilota_fields_num -= 1;
                            }
                            Some(3) if field_ident.field_type == ::pilota::thrift::TType::List => {
                                var_3 = Some(unsafe {
                                    let list_ident = __protocol.read_list_begin()?;
                                    let mut val: ::std::vec::Vec<
                                        ::std::vec::Vec<::std::vec::Vec<i32>>,
                                    > = ::std::vec::Vec::with_capacity(list_ident.size);
                                    for i in 0..list_ident.size {
                                        val.as_mut_ptr().offset(i as isize).write(unsafe {
                                            let list_ident = __protocol.read_list_begin()?;
                                            let mut val: ::std::vec::Vec<::std::vec::Vec<i32>> =
                                                ::std::vec::Vec::with_capacity(list_ident.size);
                                            for i in 0..list_ident.size {
                                                val.as_mut_ptr().offset(i as isize).write(unsafe {
                                                    let list_ident =
                                                        __protocol.read_list_begin()?;
                                                    let mut val: ::std::vec::Vec<i32> =
                                                        ::std::vec::Vec::with_capacity(
                                                            list_ident.size,
                                                        );
                                                    for i in 0..list_ident.size {
                                                        val.as_mut_ptr()
                                                            .offset(i as isize)
                                                            .write(__protocol.read_i32()?);
                                                    }
                                                    val.set_len(list_ident.size);
                                                    __protocol.read_list_end()?;
                                                    val
                                                });
                                            }
                                            val.set_len(list_ident.size);
                                            __protocol.read_list_end()?;
                                            val
                                        });
                                    }
                                    val.set_len(list_ident.size);
                                    __protocol.read_list_end()?;
                                    val
                                });
                                __pilota_fields_num -= 1;
                            }
                            _ => {
                                __pilota_offset += __protocol.skip(field_ident.field_type)?;
                                _unknown_fields.push_back(
                                    __protocol
                                        .get_bytes(Some(__pilota_begin_ptr), __pilota_offset)?,
                                );
                            }
                        }

                        __protocol.read_field_end()?;
                        __pilota_offset += __protocol.field_end_len();
                    }
                    ::std::result::Result::Ok::<_, ::pilota::thrift::ThriftException>(())
                })() {
                    if let Some(field_id) = __pilota_decoding_field_id {
                        err.prepend_msg(&format!(
                            "decode struct `S0x0` field(#{}) failed, caused by: ",
                            field_id
                        ));
                    }
                    return ::std::result::Result::Err(err);
                };
                __protocol.read_struct_end()?;

                let data = Self {
                    f1: var_1,
                    f2: var_2,
                    f3: var_3,
                    _unknown_fields,
                };
                ::std::result::Result::Ok(data)
            }

            fn decode_async<'a, T: ::pilota::thrift::TAsyncInputProtocol>(
                __protocol: &'a mut T,
            ) -> ::std::pin::Pin<
                ::std::boxed::Box<
                    dyn ::std::future::Future<
                            Output = ::std::result::Result<Self, ::pilota::thrift::ThriftException>,
                        > + Send
                        + 'a,
                >,
            > {
                ::std::boxed::Box::pin(async move {
                    let mut var_1 = None;
                    let mut var_2 = true;
                    let mut var_3 = None;

                    let mut __pilota_decoding_field_id = None;

                    __protocol.read_struct_begin().await?;
                    if let ::std::result::Result::Err(mut err) = async {
                        loop {
                            let field_ident = __protocol.read_field_begin().await?;
                            if field_ident.field_type == ::pilota::thrift::TType::Stop {
                                break;
                            } else {
                            }
                            __pilota_decoding_field_id = field_ident.id;
                            match field_ident.id {
                                Some(1)
                                    if field_ident.field_type == ::pilota::thrift::TType::I32 =>
                                {
                                    var_1 = Some(::std::sync::Arc::new(
                                        <E1 as ::pilota::thrift::Message>::decode_async(__protocol)
                                            .await?,
                                    ));
                                }
                                Some(2)
                                    if field_ident.field_type == ::pilota::thrift::TType::Bool =>
                                {
                                    var_2 = __protocol.read_bool().await?;
                                }
                                Some(3)
                                    if field_ident.field_type == ::pilota::thrift::TType::List =>
                                {
                                    var_3 = Some({
                                        let list_ident = __protocol.read_list_begin().await?;
                                        let mut val =
                                            ::std::vec::Vec::with_capacity(list_ident.size);
                                        for _ in 0..list_ident.size {
                                            val.push({
                                                let list_ident =
                                                    __protocol.read_list_begin().await?;
                                                let mut val =
                                                    ::std::vec::Vec::with_capacity(list_ident.size);
                                                for _ in 0..list_ident.size {
                                                    val.push({
                                                        let list_ident =
                                                            __protocol.read_list_begin().await?;
                                                        let mut val =
                                                            ::std::vec::Vec::with_capacity(
                                                                list_ident.size,
                                                            );
                                                        for _ in 0..list_ident.size {
                                                            val.push(__protocol.read_i32().await?);
                                                        }
                                                        __protocol.read_list_end().await?;
                                                        val
                                                    });
                                                }
                                                __protocol.read_list_end().await?;
                                                val
                                            });
                                        }
                                        __protocol.read_list_end().await?;
                                        val
                                    });
                                }
                                _ => {
                                    __protocol.skip(field_ident.field_type).await?;
                                }
                            }

                            __protocol.read_field_end().await?;
                        }
                        ::std::result::Result::Ok::<_, ::pilota::thrift::ThriftException>(())
                    }
                    .await
                    {
                        if let Some(field_id) = __pilota_decoding_field_id {
                            err.prepend_msg(&format!(
                                "decode struct `S0x0` field(#{}) failed, caused by: ",
                                field_id
                            ));
                        }
                        return ::std::result::Result::Err(err);
                    };
                    __protocol.read_struct_end().await?;

                    let data = Self {
                        f1: var_1,
                        f2: var_2,
                        f3: var_3,
                        _unknown_fields: ::pilota::LinkedBytes::new(),
                    };
                    ::std::result::Result::Ok(data)
                })
            }

            fn size<T: ::pilota::thrift::TLengthProtocol>(&self, __protocol: &mut T) -> usize {
                #[allow(unused_imports)]
                use ::pilota::thrift::TLengthProtocolExt;
                __protocol.struct_begin_len(&::pilota::thrift::TStructIdentifier { name: "S0x0" })
                    + self.f1.as_ref().map_or(0, |value| {
                        __protocol.i32_field_len(Some(1), (value).inner())
                    })
                    + __protocol.bool_field_len(Some(2), *&self.f2)
                    + self.f3.as_ref().map_or(0, |value| {
                        __protocol.list_field_len(
                            Some(3),
                            ::pilota::thrift::TType::List,
                            value,
                            |__protocol, el| {
                                __protocol.list_len(
                                    ::pilota::thrift::TType::List,
                                    el,
                                    |__protocol, el| {
                                        __protocol.list_len(
                                            ::pilota::thrift::TType::I32,
                                            el,
                                            |__protocol, el| __protocol.i32_len(*el),
                                        )
                                    },
                                )
                            },
                        )
                    })
                    + self._unknown_fields.size()
                    + __protocol.field_stop_len()
                    + __protocol.struct_end_len()
            }
        }
        #[derive(Debug, Default, Clone, PartialEq)]
        pub struct TdMap(pub ::pilota::AHashMap<::pilota::FastStr, TdI32>);

        impl ::std::ops::Deref for TdMap {
            type Target = ::pilota::AHashMap<::pilota::FastStr, TdI32>;

            fn deref(&self) -> &Self::Target {
                &self.0
            }
        }

        impl From<::pilota::AHashMap<::pilota::FastStr, TdI32>> for TdMap {
            fn from(v: ::pilota::AHashMap<::pilota::FastStr, TdI32>) -> Self {
                Self(v)
            }
        }

        impl ::pilota::thrift::Message for TdMap {
            fn encode<T: ::pilota::thrift::TOutputProtocol>(
                &self,
                __protocol: &mut T,
            ) -> ::std::result::Result<(), ::pilota::thrift::ThriftException> {
                #[allow(unused_imports)]
                use ::pilota::thrift::TOutputProtocolExt;
                __protocol.write_map(
                    ::pilota::thrift::TType::Binary,
                    ::pilota::thrift::TType::I32,
                    &(&**self),
                    |__protocol, key| {
                        __protocol.write_faststr((key).clone())?;
                        ::std::result::Result::Ok(())
                    },
                    |__protocol, val| {
                        __protocol.write_struct(val)?;
                        ::std::result::Result::Ok(())
                    },
                )?;
                ::std::result::Result::Ok(())
            }

            fn decode<T: ::pilota::thrift::TInputProtocol>(
                __protocol: &mut T,
            ) -> ::std::result::Result<Self, ::pilota::thrift::ThriftException> {
                #[allow(unused_imports)]
                use ::pilota::{thrift::TLengthProtocolExt, Buf};
                ::std::result::Result::Ok(TdMap({
                    let map_ident = __protocol.read_map_begin()?;
                    let mut val = ::pilota::AHashMap::with_capacity(map_ident.size);
                    for _ in 0..map_ident.size {
                        val.insert(
                            __protocol.read_faststr()?,
                            ::pilota::thrift::Message::decode(__protocol)?,
                        );
                    }
                    __protocol.read_map_end()?;
                    val
                }))
            }

            fn decode_async<'a, T: ::pilota::thrift::TAsyncInputProtocol>(
                __protocol: &'a mut T,
            ) -> ::std::pin::Pin<
                ::std::boxed::Box<
                    dyn ::std::future::Future<
                            Output = ::std::result::Result<Self, ::pilota::thrift::ThriftException>,
                        > + Send
                        + 'a,
                >,
            > {
                ::std::boxed::Box::pin(async move {
                    ::std::result::Result::Ok(TdMap({
                        let map_ident = __protocol.read_map_begin().await?;
                        let mut val = ::pilota::AHashMap::with_capacity(map_ident.size);
                        for _ in 0..map_ident.size {
                            val.insert(
                                __protocol.read_faststr().await?,
                                <TdI32 as ::pilota::thrift::Message>::decode_async(__protocol)
                                    .await?,
                            );
                        }
                        __protocol.read_map_end().await?;
                        val
                    }))
                })
            }

            fn size<T: ::pilota::thrift::TLengthProtocol>(&self, __protocol: &mut T) -> usize {
                #[allow(unused_imports)]
                use ::pilota::thrift::TLengthProtocolExt;
                __protocol.map_len(
                    ::pilota::thrift::TType::Binary,
                    ::pilota::thrift::TType::I32,
                    &**self,
                    |__protocol, key| __protocol.faststr_len(key),
                    |__protocol, val| __protocol.struct_len(val),
                )
            }
        }
        #[derive(PartialOrd, Hash, Eq, Ord, Debug, Default, Clone, PartialEq)]
        pub struct Svc0McArgsSend {}
        impl ::pilota::thrift::Message for Svc0McArgsSend {
            fn encode<T: ::pilota::thrift::TOutputProtocol>(
                &self,
                __protocol: &mut T,
            ) -> ::std::result::Result<(), ::pilota::thrift::ThriftException> {
                #[allow(unused_imports)]
                use ::pilota::thrift::TOutputProtocolExt;
                let struct_ident = ::pilota::thrift::TStructIdentifier {
                    name: "Svc0McArgsSend",
                };

                __protocol.write_struct_begin(&struct_ident)?;

                __protocol.write_field_stop()?;
                __protocol.write_struct_end()?;
                ::std::result::Result::Ok(())
            }

            fn decode<T: ::pilota::thrift::TInputProtocol>(
                __protocol: &mut T,
            ) -> ::std::result::Result<Self, ::pilota::thrift::ThriftException> {
                #[allow(unused_imports)]
                use ::pilota::{thrift::TLengthProtocolExt, Buf};

                let mut __pilota_decoding_field_id = None;

                __protocol.read_struct_begin()?;
                if let ::std::result::Result::Err(mut err) = (|| {
                    loop {
                        let field_ident = __protocol.read_field_begin()?;
                        if field_ident.field_type == ::pilota::thrift::TType::Stop {
                            __protocol.field_stop_len();
                            break;
                        } else {
                            __protocol.field_begin_len(field_ident.field_type, field_ident.id);
                        }
                        __pilota_decoding_field_id = field_ident.id;
                        match field_ident.id {
                            _ => {
                                __protocol.skip(field_ident.field_type)?;
                            }
                        }

                        __protocol.read_field_end()?;
                        __protocol.field_end_len();
                    }
                    ::std::result::Result::Ok::<_, ::pilota::thrift::ThriftException>(())
                })() {
                    if let Some(field_id) = __pilota_decoding_field_id {
                        err.prepend_msg(&format!(
                            "decode struct `Svc0McArgsSend` field(#{}) failed, caused by: ",
                            field_id
                        ));
                    }
                    return ::std::result::Result::Err(err);
                };
                __protocol.read_struct_end()?;

                let data = Self {};
                ::std::result::Result::Ok(data)
            }

            fn decode_async<'a, T: ::pilota::thrift::TAsyncInputProtocol>(
                __protocol: &'a mut T,
            ) -> ::std::pin::Pin<
                ::std::boxed::Box<
                    dyn ::std::future::Future<
                            Output = ::std::result::Result<Self, ::pilota::thrift::ThriftException>,
                        > + Send
                        + 'a,
                >,
            > {
                ::std::boxed::Box::pin(async move {
                    let mut __pilota_decoding_field_id = None;

                    __protocol.read_struct_begin().await?;
                    if let ::std::result::Result::Err(mut err) = async {
                        loop {
                            let field_ident = __protocol.read_field_begin().await?;
                            if field_ident.field_type == ::pilota::thrift::TType::Stop {
                                break;
                            } else {
                            }
                            __pilota_decoding_field_id = field_ident.id;
                            match field_ident.id {
                                _ => {
                                    __protocol.skip(field_ident.field_type).await?;
                                }
                            }

                            __protocol.read_field_end().await?;
                        }
                        ::std::result::Result::Ok::<_, ::pilota::thrift::ThriftException>(())
                    }
                    .await
                    {
                        if let Some(field_id) = __pilota_decoding_field_id {
                            err.prepend_msg(&format!(
                                "decode struct `Svc0McArgsSend` field(#{}) failed, caused by: ",
                                field_id
                            ));
                        }
                        return ::std::result::Result::Err(err);
                    };
                    __protocol.read_struct_end().await?;

                    let data = Self {};
                    ::std::result::Result::Ok(data)
                })
            }

            fn size<T: ::pilota::thrift::TLengthProtocol>(&self, __protocol: &mut T) -> usize {
                #[allow(unused_imports)]
                use ::pilota::thrift::TLengthProtocolExt;
                __protocol.struct_begin_len(&::pilota::thrift::TStructIdentifier {
                    name: "Svc0McArgsSend",
                }) + __protocol.field_stop_len()
                    + __protocol.struct_end_len()
            }
        }
        #[derive(Debug, Default, Clone, PartialEq)]
        pub struct Svc0MaArgsSend {
            pub req: Outer0,

            pub n: ::std::option::Option<i32>,
        }
        impl ::pilota::thrift::Message for Svc0MaArgsSend {
            fn encode<T: ::pilota::thrift::TOutputProtocol>(
                &self,
                __protocol: &mut T,
            ) -> ::std::result::Result<(), ::pilota::thrift::ThriftException> {
                #[allow(unused_imports)]
                use ::pilota::thrift::TOutputProtocolExt;
                let struct_ident = ::pilota::thrift::TStructIdentifier {
                    name: "Svc0MaArgsSend",
                };

                __protocol.write_struct_begin(&struct_ident)?;
                __protocol.write_struct_field(1, &self.req, ::pilota::thrift::TType::Struct)?;
                if let Some(value) = self.n.as_ref() {
                    __protocol.write_i32_field(2, *value)?;
                }
                __protocol.write_field_stop()?;
                __protocol.write_struct_end()?;
                ::std::result::Result::Ok(())
            }

            fn decode<T: ::pilota::thrift::TInputProtocol>(
                __protocol: &mut T,
            ) -> ::std::result::Result<Self, ::pilota::thrift::ThriftException> {
                #[allow(unused_imports)]
                use ::pilota::{thrift::TLengthProtocolExt, Buf};

                let mut var_1 = None;
                let mut var_2 = None;

                let mut __pilota_decoding_field_id = None;

                __protocol.read_struct_begin()?;
                if let ::std::result::Result::Err(mut err) = (|| {
                    loop {
                        let field_ident = __protocol.read_field_begin()?;
                        if field_ident.field_type == ::pilota::thrift::TType::Stop {
                            __protocol.field_stop_len();
                            break;
                        } else {
                            __protocol.field_begin_len(field_ident.field_type, field_ident.id);
                        }
                        __pilota_decoding_field_id = field_ident.id;
                        match field_ident.id {
                            Some(1)
                                if field_ident.field_type == ::pilota::thrift::TType::Struct =>
                            {
                                var_1 = Some(::pilota::thrift::Message::decode(__protocol)?);
                            }
                            Some(2) if field_ident.field_type == ::pilota::thrift::TType::I32 => {
                                var_2 = Some(__protocol.read_i32()?);
                            }
                            _ => {
                                __protocol.skip(field_ident.field_type)?;
                            }
                        }

                        __protocol.read_field_end()?;
                        __protocol.field_end_len();
                    }
                    ::std::result::Result::Ok::<_, ::pilota::thrift::ThriftException>(())
                })() {
                    if let Some(field_id) = __pilota_decoding_field_id {
                        err.prepend_msg(&format!(
                            "decode struct `Svc0MaArgsSend` field(#{}) failed, caused by: ",
                            field_id
                        ));
                    }
                    return ::std::result::Result::Err(err);
                };
                __protocol.read_struct_end()?;

                let Some(var_1) = var_1 else {
                    return ::std::result::Result::Err(::pilota::thrift::new_protocol_exception(
                        ::pilota::thrift::ProtocolExceptionKind::InvalidData,
                        "field req is required".to_string(),
                    ));
                };

                let data = Self {
                    req: var_1,
                    n: var_2,
                };
                ::std::result::Result::Ok(data)
            }

            fn decode_async<'a, T: ::pilota::thrift::TAsyncInputProtocol>(
                __protocol: &'a mut T,
            ) -> ::std::pin::Pin<
                ::std::boxed::Box<
                    dyn ::std::future::Future<
                            Output = ::std::result::Result<Self, ::pilota::thrift::ThriftException>,
                        > + Send
                        + 'a,
                >,
            > {
                ::std::boxed::Box::pin(async move {
                    let mut var_1 = None;
                    let mut var_2 = None;

                    let mut __pilota_decoding_field_id = None;

                    __protocol.read_struct_begin().await?;
                    if let ::std::result::Result::Err(mut err) = async {
                        loop {
                            let field_ident = __protocol.read_field_begin().await?;
                            if field_ident.field_type == ::pilota::thrift::TType::Stop {
                                break;
                            } else {
                            }
                            __pilota_decoding_field_id = field_ident.id;
                            match field_ident.id {
                                Some(1)
                                    if field_ident.field_type
                                        == ::pilota::thrift::TType::Struct =>
                                {
                                    var_1 = Some(
                                        <Outer0 as ::pilota::thrift::Message>::decode_async(
                                            __protocol,
                                        )
                                        .await?,
                                    );
                                }
                                Some(2)
                                    if field_ident.field_type == ::pilota::thrift::TType::I32 =>
                                {
                                    var_2 = Some(__protocol.read_i32().await?);
                                }
                                _ => {
                                    __protocol.skip(field_ident.field_type).await?;
                                }
                            }

                            __protocol.read_field_end().await?;
                        }
                        ::std::result::Result::Ok::<_, ::pilota::thrift::ThriftException>(())
                    }
                    .await
                    {
                        if let Some(field_id) = __pilota_decoding_field_id {
                            err.prepend_msg(&format!(
                                "decode struct `Svc0MaArgsSend` field(#{}) failed, caused by: ",
                                field_id
                            ));
                        }
                        return ::std::result::Result::Err(err);
                    };
                    __protocol.read_struct_end().await?;

                    let Some(var_1) = var_1 else {
                        return ::std::result::Result::Err(
                            ::pilota::thrift::new_protocol_exception(
                                ::pilota::thrift::ProtocolExceptionKind::InvalidData,
                                "field req is required".to_string(),
                            ),
                        );
                    };

                    let data = Self {
                        req: var_1,
                        n: var_2,
                    };
                    ::std::result::Result::Ok(data)
                })
            }

            fn size<T: ::pilota::thrift::TLengthProtocol>(&self, __protocol: &mut T) -> usize {
                #[allow(unused_imports)]
                use ::pilota::thrift::TLengthProtocolExt;
                __protocol.struct_begin_len(&::pilota::thrift::TStructIdentifier {
                    name: "Svc0MaArgsSend",
                }) + __protocol.struct_field_len(Some(1), &self.req)
                    + self
                        .n
                        .as_ref()
                        .map_or(0, |value| __protocol.i32_field_len(Some(2), *value))
                    + __protocol.field_stop_len()
                    + __protocol.struct_end_len()
            }
        }
        impl ::std::default::Default for S0x7 {
            fn default() -> Self {
                S0x7 {
                    f1: ::std::default::Default::default(),
                    f2: 2f64,
                    f3: ::std::default::Default::default(),
                    _unknown_fields: ::pilota::LinkedBytes::new(),
                }
            }
        }
        #[derive(Debug, Clone, PartialEq)]
        pub struct S0x7 {
            pub f1: ::std::vec::Vec<::pilota::AHashMap<::pilota::FastStr, i32>>,

            pub f2: f64,

            pub f3: ::std::option::Option<::std::vec::Vec<bool>>,
            pub _unknown_fields: ::pilota::LinkedBytes,
        }
        impl ::pilota::thrift::Message for S0x7 {
            fn encode<T: ::pilota::thrift::TOutputProtocol>(
                &self,
                __protocol: &mut T,
            ) -> ::std::result::Result<(), ::pilota::thrift::ThriftException> {
                #[allow(unused_imports)]
                use ::pilota::thrift::TOutputProtocolExt;
                let struct_ident = ::pilota::thrift::TStructIdentifier { name: "S0x7" };

                __protocol.write_struct_begin(&struct_ident)?;
                __protocol.write_list_field(
                    5,
                    ::pilota::thrift::TType::Map,
                    &&self.f1,
                    |__protocol, val| {
                        __protocol.write_map(
                            ::pilota::thrift::TType::Binary,
                            ::pilota::thrift::TType::I32,
                            &val,
                            |__protocol, key| {
                                __protocol.write_faststr((key).clone())?;
                                ::std::result::Result::Ok(())
                            },
                            |__protocol, val| {
                                __protocol.write_i32(*val)?;
                                ::std::result::Result::Ok(())
                            },
                        )?;
                        ::std::result::Result::Ok(())
                    },
                )?;
                __protocol.write_double_field(20, *&self.f2)?;
                if let Some(value) = self.f3.as_ref() {
                    __protocol.write_list_field(
                        21,
                        ::pilota::thrift::TType::Bool,
                        &value,
                        |__protocol, val| {
                            __protocol.write_bool(*val)?;
                            ::std::result::Result::Ok(())
                        },
                    )?;
                }
                for bytes in self._unknown_fields.list.iter() {
                    __protocol.write_bytes_without_len(bytes.clone());
                }
                __protocol.write_field_stop()?;
                __protocol.write_struct_end()?;
                ::std::result::Result::Ok(())
            }

            fn decode<T: ::pilota::thrift::TInputProtocol>(
                __protocol: &mut T,
            ) -> ::std::result::Result<Self, ::pilota::thrift::ThriftException> {
                #[allow(unused_imports)]
                use ::pilota::{thrift::TLengthProtocolExt, Buf};

                let mut var_5 = None;
                let mut var_20 = 2f64;
                let mut var_21 = None;
                let mut _unknown_fields = ::pilota::LinkedBytes::new();

                let mut __pilota_decoding_field_id = None;

                __protocol.read_struct_begin()?;
                if let ::std::result::Result::Err(mut err) = (|| {
                    loop {
                        let mut __pilota_offset = 0;
                        let __pilota_begin_ptr = __protocol.buf().chunk().as_ptr();
                        let field_ident = __protocol.read_field_begin()?;
                        if field_ident.field_type == ::pilota::thrift::TType::Stop {
                            __pilota_offset += __protocol.field_stop_len();
                            break;
                        } else {
                            __pilota_offset +=
                                __protocol.field_begin_len(field_ident.field_type, field_ident.id);
                        }
                        __pilota_decoding_field_id = field_ident.id;
                        match field_ident.id {
                            Some(5) if field_ident.field_type == ::pilota::thrift::TType::List => {
                                var_5 = Some(unsafe {
                                    let list_ident = __protocol.read_list_begin()?;
                                    let mut val: ::std::vec::Vec<
                                        ::pilota::AHashMap<::pilota::FastStr, i32>,
                                    > = ::std::vec::Vec::with_capacity(list_ident.size);
                                    for i in 0..list_ident.size {
                                        val.as_mut_ptr().offset(i as isize).write({
                                            let map_ident = __protocol.read_map_begin()?;
                                            let mut val =
                                                ::pilota::AHashMap::with_capacity(map_ident.size);
                                            for _ in 0..map_ident.size {
                                                val.insert(
                                                    __protocol.read_faststr()?,
                                                    __protocol.read_i32()?,
                                                );
                                            }
                                            __protocol.read_map_end()?;
                                            val
                                        });
                                    }
                                    val.set_len(list_ident.size);
                                    __protocol.read_list_end()?;
                                    val
                                });
                            }
                            Some(20)
                                if field_ident.field_type == ::pilota::thrift::TType::Double =>
                            {
                                var_20 = __protocol.read_double()?;
                            }
                            Some(21) if field_ident.field_type == ::pilota::thrift::TType::List => {
                                var_21 = Some(unsafe {
                                    let list_ident = __protocol.read_list_begin()?;
                                    let mut val: ::std::vec::Vec<bool> =
                                        ::std::vec::Vec::with_capacity(list_ident.size);
                                    for i in 0..list_ident.size {
                                        val.as_mut_ptr()
                                            .offset(i as isize)
                                            .write(__protocol.read_bool()?);
                                    }
                                    val.set_len(list_ident.size);
                                    __protocol.read_list_end()?;
                                    val
                                });
                            }
                            _ => {
                                __pilota_offset += __protocol.skip(field_ident.field_type)?;
                                _unknown_fields.push_back(
                                    __protocol
                                        .get_bytes(Some(__pilota_begin_ptr), __pilota_offset)?,
                                );
                            }
                        }

                        __protocol.read_field_end()?;
                        __pilota_offset += __protocol.field_end_len();
                    }
                    ::std::result::Result::Ok::<_, ::pilota::thrift::ThriftException>(())
                })() {
                    if let Some(field_id) = __pilota_decoding_field_id {
                        err.prepend_msg(&format!(
                            "decode struct `S0x7` field(#{}) failed, caused by: ",
                            field_id
                        ));
                    }
                    return ::std::result::Result::Err(err);
                };
                __protocol.read_struct_end()?;

                let Some(var_5) = var_5 else {
                    return ::std::result::Result::Err(::pilota::thrift::new_protocol_exception(
                        ::pilota::thrift::ProtocolExceptionKind::InvalidData,
                        "field f1 is required".to_string(),
                    ));
                };

                let data = Self {
                    f1: var_5,
                    f2: var_20,
                    f3: var_21,
                    _unknown_fields,
                };
                ::std::result::Result::Ok(data)
            }

            fn decode_async<'a, T: ::pilota::thrift::TAsyncInputProtocol>(
                __protocol: &'a mut T,
            ) -> ::std::pin::Pin<
                ::std::boxed::Box<
                    dyn ::std::future::Future<
                            Output = ::std::result::Result<Self, ::pilota::thrift::ThriftException>,
                        > + Send
                        + 'a,
                >,
            > {
                ::std::boxed::Box::pin(async move {
                    let mut var_5 = None;
                    let mut var_20 = 2f64;
                    let mut var_21 = None;

                    let mut __pilota_decoding_field_id = None;

                    __protocol.read_struct_begin().await?;
                    if let ::std::result::Result::Err(mut err) = async {
                        loop {
                            let field_ident = __protocol.read_field_begin().await?;
                            if field_ident.field_type == ::pilota::thrift::TType::Stop {
                                break;
                            } else {
                            }
                            __pilota_decoding_field_id = field_ident.id;
                            match field_ident.id {
                                Some(5)
                                    if field_ident.field_type == ::pilota::thrift::TType::List =>
                                {
                                    var_5 = Some({
                                        let list_ident = __protocol.read_list_begin().await?;
                                        let mut val =
                                            ::std::vec::Vec::with_capacity(list_ident.size);
                                        for _ in 0..list_ident.size {
                                            val.push({
                                                let map_ident = __protocol.read_map_begin().await?;
                                                let mut val = ::pilota::AHashMap::with_capacity(
                                                    map_ident.size,
                                                );
                                                for _ in 0..map_ident.size {
                                                    val.insert(
                                                        __protocol.read_faststr().await?,
                                                        __protocol.read_i32().await?,
                                                    );
                                                }
                                                __protocol.read_map_end().await?;
                                                val
                                            });
                                        }
                                        __protocol.read_list_end().await?;
                                        val
                                    });
                                }
                                Some(20)
                                    if field_ident.field_type
                                        == ::pilota::thrift::TType::Double =>
                                {
                                    var_20 = __protocol.read_double().await?;
                                }
                                Some(21)
                                    if field_ident.field_type == ::pilota::thrift::TType::List =>
                                {
                                    var_21 = Some({
                                        let list_ident = __protocol.read_list_begin().await?;
                                        let mut val =
                                            ::std::vec::Vec::with_capacity(list_ident.size);
                                        for _ in 0..list_ident.size {
                                            val.push(__protocol.read_bool().await?);
                                        }
                                        __protocol.read_list_end().await?;
                                        val
                                    });
                                }
                                _ => {
                                    __protocol.skip(field_ident.field_type).await?;
                                }
                            }

                            __protocol.read_field_end().await?;
                        }
                        ::std::result::Result::Ok::<_, ::pilota::thrift::ThriftException>(())
                    }
                    .await
                    {
                        if let Some(field_id) = __pilota_decoding_field_id {
                            err.prepend_msg(&format!(
                                "decode struct `S0x7` field(#{}) failed, caused by: ",
                                field_id
                            ));
                        }
                        return ::std::result::Result::Err(err);
                    };
                    __protocol.read_struct_end().await?;

                    let Some(var_5) = var_5 else {
                        return ::std::result::Result::Err(
                            ::pilota::thrift::new_protocol_exception(
                                ::pilota::thrift::ProtocolExceptionKind::InvalidData,
                                "field f1 is required".to_string(),
                            ),
                        );
                    };

                    let data = Self {
                        f1: var_5,
                        f2: var_20,
                        f3: var_21,
                        _unknown_fields: ::pilota::LinkedBytes::new(),
                    };
                    ::std::result::Result::Ok(data)
                })
            }

            fn size<T: ::pilota::thrift::TLengthProtocol>(&self, __protocol: &mut T) -> usize {
                #[allow(unused_imports)]
                use ::pilota::thrift::TLengthProtocolExt;
                __protocol.struct_begin_len(&::pilota::thrift::TStructIdentifier { name: "S0x7" })
                    + __protocol.list_field_len(
                        Some(5),
                        ::pilota::thrift::TType::Map,
                        &self.f1,
                        |__protocol, el| {
                            __protocol.map_len(
                                ::pilota::thrift::TType::Binary,
                                ::pilota::thrift::TType::I32,
                                el,
                                |__protocol, key| __protocol.faststr_len(key),
                                |__protocol, val| __protocol.i32_len(*val),
                            )
                        },
                    )
                    + __protocol.double_field_len(Some(20), *&self.f2)
                    + self.f3.as_ref().map_or(0, |value| {
                        __protocol.list_field_len(
                            Some(21),
                            ::pilota::thrift::TType::Bool,
                            value,
                            |__protocol, el| __protocol.bool_len(*el),
                        )
                    })
                    + self._unknown_fields.size()
                    + __protocol.field_stop_len()
                    + __protocol.struct_end_len()
            }
        }
        #[derive(PartialOrd, Hash, Eq, Ord, Debug, Default, Clone, PartialEq)]
        pub struct Svc0MdArgsRecv {
            pub req: Req0,
        }
        impl ::pilota::thrift::Message for Svc0MdArgsRecv {
            fn encode<T: ::pilota::thrift::TOutputProtocol>(
                &self,
                __protocol: &mut T,
            ) -> ::std::result::Result<(), ::pilota::thrift::ThriftException> {
                #[allow(unused_imports)]
                use ::pilota::thrift::TOutputProtocolExt;
                let struct_ident = ::pilota::thrift::TStructIdentifier {
                    name: "Svc0MdArgsRecv",
                };

                __protocol.write_struct_begin(&struct_ident)?;
                __protocol.write_struct_field(1, &self.req, ::pilota::thrift::TType::Struct)?;
                __protocol.write_field_stop()?;
                __protocol.write_struct_end()?;
                ::std::result::Result::Ok(())
            }

            fn decode<T: ::pilota::thrift::TInputProtocol>(
                __protocol: &mut T,
            ) -> ::std::result::Result<Self, ::pilota::thrift::ThriftException> {
                #[allow(unused_imports)]
                use ::pilota::{thrift::TLengthProtocolExt, Buf};

                let mut var_1 = None;

                let mut __pilota_decoding_field_id = None;

                __protocol.read_struct_begin()?;
                if let ::std::result::Result::Err(mut err) = (|| {
                    loop {
                        let field_ident = __protocol.read_field_begin()?;
                        if field_ident.field_type == ::pilota::thrift::TType::Stop {
                            __protocol.field_stop_len();
                            break;
                        } else {
                            __protocol.field_begin_len(field_ident.field_type, field_ident.id);
                        }
                        __pilota_decoding_field_id = field_ident.id;
                        match field_ident.id {
                            Some(1)
                                if field_ident.field_type == ::pilota::thrift::TType::Struct =>
                            {
                                var_1 = Some(::pilota::thrift::Message::decode(__protocol)?);
                            }
                            _ => {
                                __protocol.skip(field_ident.field_type)?;
                            }
                        }

                        __protocol.read_field_end()?;
                        __protocol.field_end_len();
                    }
                    ::std::result::Result::Ok::<_, ::pilota::thrift::ThriftException>(())
                })() {
                    if let Some(field_id) = __pilota_decoding_field_id {
                        err.prepend_msg(&format!(
                            "decode struct `Svc0MdArgsRecv` field(#{}) failed, caused by: ",
                            field_id
                        ));
                    }
                    return ::std::result::Result::Err(err);
                };
                __protocol.read_struct_end()?;

                let Some(var_1) = var_1 else {
                    return ::std::result::Result::Err(::pilota::thrift::new_protocol_exception(
                        ::pilota::thrift::ProtocolExceptionKind::InvalidData,
                        "field req is required".to_string(),
                    ));
                };

                let data = Self { req: var_1 };
                ::std::result::Result::Ok(data)
            }

            fn decode_async<'a, T: ::pilota::thrift::TAsyncInputProtocol>(
                __protocol: &'a mut T,
            ) -> ::std::pin::Pin<
                ::std::boxed::Box<
                    dyn ::std::future::Future<
                            Output = ::std::result::Result<Self, ::pilota::thrift::ThriftException>,
                        > + Send
                        + 'a,
                >,
            > {
                ::std::boxed::Box::pin(async move {
                    let mut var_1 = None;

                    let mut __pilota_decoding_field_id = None;

                    __protocol.read_struct_begin().await?;
                    if let ::std::result::Result::Err(mut err) = async {
                        loop {
                            let field_ident = __protocol.read_field_begin().await?;
                            if field_ident.field_type == ::pilota::thrift::TType::Stop {
                                break;
                            } else {
                            }
                            __pilota_decoding_field_id = field_ident.id;
                            match field_ident.id {
                                Some(1)
                                    if field_ident.field_type
                                        == ::pilota::thrift::TType::Struct =>
                                {
                                    var_1 = Some(
                                        <Req0 as ::pilota::thrift::Message>::decode_async(
                                            __protocol,
                                        )
                                        .await?,
                                    );
                                }
                                _ => {
                                    __protocol.skip(field_ident.field_type).await?;
                                }
                            }

                            __protocol.read_field_end().await?;
                        }
                        ::std::result::Result::Ok::<_, ::pilota::thrift::ThriftException>(())
                    }
                    .await
                    {
                        if let Some(field_id) = __pilota_decoding_field_id {
                            err.prepend_msg(&format!(
                                "decode struct `Svc0MdArgsRecv` field(#{}) failed, caused by: ",
                                field_id
                            ));
                        }
                        return ::std::result::Result::Err(err);
                    };
                    __protocol.read_struct_end().await?;

                    let Some(var_1) = var_1 else {
                        return ::std::result::Result::Err(
                            ::pilota::thrift::new_protocol_exception(
                                ::pilota::thrift::ProtocolExceptionKind::InvalidData,
                                "field req is required".to_string(),
                            ),
                        );
                    };

                    let data = Self { req: var_1 };
                    ::std::result::Result::Ok(data)
                })
            }

            fn size<T: ::pilota::thrift::TLengthProtocol>(&self, __protocol: &mut T) -> usize {
                #[allow(unused_imports)]
                use ::pilota::thrift::TLengthProtocolExt;
                __protocol.struct_begin_len(&::pilota::thrift::TStructIdentifier {
                    name: "Svc0MdArgsRecv",
                }) + __protocol.struct_field_len(Some(1), &self.req)
                    + __protocol.field_stop_len()
                    + __protocol.struct_end_len()
            }
        }
        #[derive(PartialOrd, Hash, Eq, Ord, Debug, Default, Clone, PartialEq)]
        pub struct TdStr(pub ::pilota::FastStr);

        impl ::std::ops::Deref for TdStr {
            type Target = ::pilota::FastStr;

            fn deref(&self) -> &Self::Target {
                &self.0
            }
        }

        impl From<::pilota::FastStr> for TdStr {
            fn from(v: ::pilota::FastStr) -> Self {
                Self(v)
            }
        }

        impl ::pilota::thrift::Message for TdStr {
            fn encode<T: ::pilota::thrift::TOutputProtocol>(
                &self,
                __protocol: &mut T,
            ) -> ::std::result::Result<(), ::pilota::thrift::ThriftException> {
                #[allow(unused_imports)]
                use ::pilota::thrift::TOutputProtocolExt;
                __protocol.write_faststr((&**self).clone())?;
                ::std::result::Result::Ok(())
            }

            fn decode<T: ::pilota::thrift::TInputProtocol>(
                __protocol: &mut T,
            ) -> ::std::result::Result<Self, ::pilota::thrift::ThriftException> {
                #[allow(unused_imports)]
                use ::pilota::{thrift::TLengthProtocolExt, Buf};
                ::std::result::Result::Ok(TdStr(__protocol.read_faststr()?))
            }

            fn decode_async<'a, T: ::pilota::thrift::TAsyncInputProtocol>(
                __protocol: &'a mut T,
            ) -> ::std::pin::Pin<
                ::std::boxed::Box<
                    dyn ::std::future::Future<
                            Output = ::std::result::Result<Self, ::pilota::thrift::ThriftException>,
                        > + Send
                        + 'a,
                >,
            > {
                ::std::boxed::Box::pin(async move {
                    ::std::result::Result::Ok(TdStr(__protocol.read_faststr().await?))
                })
            }

            fn size<T: ::pilota::thrift::TLengthProtocol>(&self, __protocol: &mut T) -> usize {
                #[allow(unused_imports)]
                use ::pilota::thrift::TLengthProtocolExt;
                __protocol.faststr_len(&**self)
            }
        }
        #[derive(PartialOrd, Hash, Eq, Ord, Debug, Default, Clone, PartialEq)]
        pub struct Svc0MbArgsRecv {
            pub x: E1,

            pub b: bool,
        }
        impl ::pilota::thrift::Message for Svc0MbArgsRecv {
            fn encode<T: ::pilota::thrift::TOutputProtocol>(
                &self,
                __protocol: &mut T,
            ) -> ::std::result::Result<(), ::pilota::thrift::ThriftException> {
                #[allow(unused_imports)]
                use ::pilota::thrift::TOutputProtocolExt;
                let struct_ident = ::pilota::thrift::TStructIdentifier {
                    name: "Svc0MbArgsRecv",
                };

                __protocol.write_struct_begin(&struct_ident)?;
                __protocol.write_i32_field(1, (&self.x).inner())?;
                __protocol.write_bool_field(3, *&self.b)?;
                __protocol.write_field_stop()?;
                __protocol.write_struct_end()?;
                ::std::result::Result::Ok(())
            }

            fn decode<T: ::pilota::thrift::TInputProtocol>(
                __protocol: &mut T,
            ) -> ::std::result::Result<Self, ::pilota::thrift::ThriftException> {
                #[allow(unused_imports)]
                use ::pilota::{thrift::TLengthProtocolExt, Buf};

                let mut var_1 = None;
                let mut var_3 = None;

                let mut __pilota_decoding_field_id = None;

                __protocol.read_struct_begin()?;
                if let ::std::result::Result::Err(mut err) = (|| {
                    loop {
                        let field_ident = __protocol.read_field_begin()?;
                        if field_ident.field_type == ::pilota::thrift::TType::Stop {
                            __protocol.field_stop_len();
                            break;
                        } else {
                            __protocol.field_begin_len(field_ident.field_type, field_ident.id);
                        }
                        __pilota_decoding_field_id = field_ident.id;
                        match field_ident.id {
                            Some(1) if field_ident.field_type == ::pilota::thrift::TType::I32 => {
                                var_1 = Some(::pilota::thrift::Message::decode(__protocol)?);
                            }
                            Some(3) if field_ident.field_type == ::pilota::thrift::TType::Bool => {
                                var_3 = Some(__protocol.read_bool()?);
                            }
                            _ => {
                                __protocol.skip(field_ident.field_type)?;
                            }
                        }

                        __protocol.read_field_end()?;
                        __protocol.field_end_len();
                    }
                    ::std::result::Result::Ok::<_, ::pilota::thrift::ThriftException>(())
                })() {
                    if let Some(field_id) = __pilota_decoding_field_id {
                        err.prepend_msg(&format!(
                            "decode struct `Svc0MbArgsRecv` field(#{}) failed, caused by: ",
                            field_id
                        ));
                    }
                    return ::std::result::Result::Err(err);
                };
                __protocol.read_struct_end()?;

                let Some(var_1) = var_1 else {
                    return ::std::result::Result::Err(::pilota::thrift::new_protocol_exception(
                        ::pilota::thrift::ProtocolExceptionKind::InvalidData,
                        "field x is required".to_string(),
                    ));
                };
                let Some(var_3) = var_3 else {
                    return ::std::result::Result::Err(::pilota::thrift::new_protocol_exception(
                        ::pilota::thrift::ProtocolExceptionKind::InvalidData,
                        "field b is required".to_string(),
                    ));
                };

                let data = Self { x: var_1, b: var_3 };
                ::std::result::Result::Ok(data)
            }

            fn decode_async<'a, T: ::pilota::thrift::TAsyncInputProtocol>(
                __protocol: &'a mut T,
            ) -> ::std::pin::Pin<
                ::std::boxed::Box<
                    dyn ::std::future::Future<
                            Output = ::std::result::Result<Self, ::pilota::thrift::ThriftException>,
                        > + Send
                        + 'a,
                >,
            > {
                ::std::boxed::Box::pin(async move {
                    let mut var_1 = None;
                    let mut var_3 = None;

                    let mut __pilota_decoding_field_id = None;

                    __protocol.read_struct_begin().await?;
                    if let ::std::result::Result::Err(mut err) = async {
                        loop {
                            let field_ident = __protocol.read_field_begin().await?;
                            if field_ident.field_type == ::pilota::thrift::TType::Stop {
                                break;
                            } else {
                            }
                            __pilota_decoding_field_id = field_ident.id;
                            match field_ident.id {
                                Some(1)
                                    if field_ident.field_type == ::pilota::thrift::TType::I32 =>
                                {
                                    var_1 = Some(
                                        <E1 as ::pilota::thrift::Message>::decode_async(__protocol)
                                            .await?,
                                    );
                                }
                                Some(3)
                                    if field_ident.field_type == ::pilota::thrift::TType::Bool =>
                                {
                                    var_3 = Some(__protocol.read_bool().await?);
                                }
                                _ => {
                                    __protocol.skip(field_ident.field_type).await?;
                                }
                            }

                            __protocol.read_field_end().await?;
                        }
                        ::std::result::Result::Ok::<_, ::pilota::thrift::ThriftException>(())
                    }
                    .await
                    {
                        if let Some(field_id) = __pilota_decoding_field_id {
                            err.prepend_msg(&format!(
                                "decode struct `Svc0MbArgsRecv` field(#{}) failed, caused by: ",
                                field_id
                            ));
                        }
                        return ::std::result::Result::Err(err);
                    };
                    __protocol.read_struct_end().await?;

                    let Some(var_1) = var_1 else {
                        return ::std::result::Result::Err(
                            ::pilota::thrift::new_protocol_exception(
                                ::pilota::thrift::ProtocolExceptionKind::InvalidData,
                                "field x is required".to_string(),
                            ),
                        );
                    };
                    let Some(var_3) = var_3 else {
                        return ::std::result::Result::Err(
                            ::pilota::thrift::new_protocol_exception(
                                ::pilota::thrift::ProtocolExceptionKind::InvalidData,
                                "field b is required".to_string(),
                            ),
                        );
                    };

                    let data = Self { x: var_1, b: var_3 };
                    ::std::result::Result::Ok(data)
                })
            }

            fn size<T: ::pilota::thrift::TLengthProtocol>(&self, __protocol: &mut T) -> usize {
                #[allow(unused_imports)]
                use ::pilota::thrift::TLengthProtocolExt;
                __protocol.struct_begin_len(&::pilota::thrift::TStructIdentifier {
                    name: "Svc0MbArgsRecv",
                }) + __protocol.i32_field_len(Some(1), (&self.x).inner())
                    + __protocol.bool_field_len(Some(3), *&self.b)
                    + __protocol.field_stop_len()
                    + __protocol.struct_end_len()
            }
        }
        impl ::std::default::Default for Svc0MaResultSend {
            fn default() -> Self {
                Svc0MaResultSend::Ok(::std::default::Default::default())
            }
        }
        #[derive(PartialOrd, Hash, Eq, Ord, Debug, Clone, PartialEq)]
        pub enum Svc0MaResultSend {
            Ok(S0x0),

            E1(Ex1),
        }

        impl ::pilota::thrift::Message for Svc0MaResultSend {
            fn encode<T: ::pilota::thrift::TOutputProtocol>(
                &self,
                __protocol: &mut T,
            ) -> ::std::result::Result<(), ::pilota::thrift::ThriftException> {
                #[allow(unused_imports)]
                use ::pilota::thrift::TOutputProtocolExt;
                __protocol.write_struct_begin(&::pilota::thrift::TStructIdentifier {
                    name: "Svc0MaResultSend",
                })?;
                match self {
                    Svc0MaResultSend::Ok(value) => {
                        __protocol.write_struct_field(0, value, ::pilota::thrift::TType::Struct)?;
                    }
                    Svc0MaResultSend::E1(value) => {
                        __protocol.write_struct_field(1, value, ::pilota::thrift::TType::Struct)?;
                    }
                }
                __protocol.write_field_stop()?;
                __protocol.write_struct_end()?;
                ::std::result::Result::Ok(())
            }

            fn decode<T: ::pilota::thrift::TInputProtocol>(
                __protocol: &mut T,
            ) -> ::std::result::Result<Self, ::pilota::thrift::ThriftException> {
                #[allow(unused_imports)]
                use ::pilota::{thrift::TLengthProtocolExt, Buf};
                let mut ret = None;
                __protocol.read_struct_begin()?;
                loop {
                    let field_ident = __protocol.read_field_begin()?;
                    if field_ident.field_type == ::pilota::thrift::TType::Stop {
                        __protocol.field_stop_len();
                        break;
                    } else {
                        __protocol.field_begin_len(field_ident.field_type, field_ident.id);
                    }
                    match field_ident.id {
                        Some(0) => {
                            if ret.is_none() {
                                let field_ident = ::pilota::thrift::Message::decode(__protocol)?;
                                __protocol.struct_len(&field_ident);
                                ret = Some(Svc0MaResultSend::Ok(field_ident));
                            } else {
                                return ::std::result::Result::Err(
                                    ::pilota::thrift::new_protocol_exception(
                                        ::pilota::thrift::ProtocolExceptionKind::InvalidData,
                                        "received multiple fields for union from remote Message",
                                    ),
                                );
                            }
                        }
                        Some(1) => {
                            if ret.is_none() {
                                let field_ident = ::pilota::thrift::Message::decode(__protocol)?;
                                __protocol.struct_len(&field_ident);
                                ret = Some(Svc0MaResultSend::E1(field_ident));
                            } else {
                                return ::std::result::Result::Err(
                                    ::pilota::thrift::new_protocol_exception(
                                        ::pilota::thrift::ProtocolExceptionKind::InvalidData,
                                        "received multiple fields for union from remote Message",
                                    ),
                                );
                            }
                        }
                        _ => {
                            __protocol.skip(field_ident.field_type)?;
                        }
                    }
                }
                __protocol.read_field_end()?;
                __protocol.read_struct_end()?;
                if let Some(ret) = ret {
                    ::std::result::Result::Ok(ret)
                } else {
                    ::std::result::Result::Err(::pilota::thrift::new_protocol_exception(
                        ::pilota::thrift::ProtocolExceptionKind::InvalidData,
                        "received empty union from remote Message",
                    ))
                }
            }

            fn decode_async<'a, T: ::pilota::thrift::TAsyncInputProtocol>(
                __protocol: &'a mut T,
            ) -> ::std::pin::Pin<
                ::std::boxed::Box<
                    dyn ::std::future::Future<
                            Output = ::std::result::Result<Self, ::pilota::thrift::ThriftException>,
                        > + Send
                        + 'a,
                >,
            > {
                ::std::boxed::Box::pin(async move {
                    let mut ret = None;
                    __protocol.read_struct_begin().await?;
                    loop {
                        let field_ident = __protocol.read_field_begin().await?;
                        if field_ident.field_type == ::pilota::thrift::TType::Stop {
                            break;
                        } else {
                        }
                        match field_ident.id {
                            Some(0) => {
                                if ret.is_none() {
                                    let field_ident =
                                        <S0x0 as ::pilota::thrift::Message>::decode_async(
                                            __protocol,
                                        )
                                        .await?;

                                    ret = Some(Svc0MaResultSend::Ok(field_ident));
                                } else {
                                    return ::std::result::Result::Err(::pilota::thrift::new_protocol_exception(
                                            ::pilota::thrift::ProtocolExceptionKind::InvalidData,
                                            "received multiple fields for union from remote Message"
                                        ));
                                }
                            }
                            Some(1) => {
                                if ret.is_none() {
                                    let field_ident =
                                        <Ex1 as ::pilota::thrift::Message>::decode_async(
                                            __protocol,
                                        )
                                        .await?;

                                    ret = Some(Svc0MaResultSend::E1(field_ident));
                                } else {
                                    return ::std::result::Result::Err(::pilota::thrift::new_protocol_exception(
                                            ::pilota::thrift::ProtocolExceptionKind::InvalidData,
                                            "received multiple fields for union from remote Message"
                                        ));
                                }
                            }
                            _ => {
                                __protocol.skip(field_ident.field_type).await?;
                            }
                        }
                    }
                    __protocol.read_field_end().await?;
                    __protocol.read_struct_end().await?;
                    if let Some(ret) = ret {
                        ::std::result::Result::Ok(ret)
                    } else {
                        ::std::result::Result::Err(::pilota::thrift::new_protocol_exception(
                            ::pilota::thrift::ProtocolExceptionKind::InvalidData,
                            "received empty union from remote Message",
                        ))
                    }
                })
            }

            fn size<T: ::pilota::thrift::TLengthProtocol>(&self, __protocol: &mut T) -> usize {
                #[allow(unused_imports)]
                use ::pilota::thrift::TLengthProtocolExt;
                __protocol.struct_begin_len(&::pilota::thrift::TStructIdentifier {
                    name: "Svc0MaResultSend",
                }) + match self {
                    Svc0MaResultSend::Ok(value) => __protocol.struct_field_len(Some(0), value),
                    Svc0MaResultSend::E1(value) => __protocol.struct_field_len(Some(1), value),
                } + __protocol.field_stop_len()
                    + __protocol.struct_end_len()
            }
        }
        impl ::std::default::Default for S0x14 {
            fn default() -> Self {
                S0x14 {
                    f1: Some(::pilota::Bytes::from_static("bin".as_bytes())),
                    f2: ::std::default::Default::default(),
                    f3: ::std::default::Default::default(),
                    _unknown_fields: ::pilota::LinkedBytes::new(),
                }
            }
        }
        #[derive(Debug, Clone, PartialEq)]
        pub struct S0x14 {
            pub f1: ::std::option::Option<::pilota::Bytes>,

            pub f2:
                ::std::option::Option<::std::vec::Vec<::pilota::AHashMap<::pilota::FastStr, i32>>>,

            pub f3: ::std::option::Option<::std::vec::Vec<i64>>,
            pub _unknown_fields: ::pilota::LinkedBytes,
        }
        impl ::pilota::thrift::Message for S0x14 {
            fn encode<T: ::pilota::thrift::TOutputProtocol>(
                &self,
                __protocol: &mut T,
            ) -> ::std::result::Result<(), ::pilota::thrift::ThriftException> {
                #[allow(unused_imports)]
                use ::pilota::thrift::TOutputProtocolExt;
                let struct_ident = ::pilota::thrift::TStructIdentifier { name: "S0x14" };

                __protocol.write_struct_begin(&struct_ident)?;
                if let Some(value) = self.f1.as_ref() {
                    __protocol.write_bytes_field(1, (value).clone())?;
                }
                if let Some(value) = self.f2.as_ref() {
                    __protocol.write_list_field(
                        2,
                        ::pilota::thrift::TType::Map,
                        &value,
                        |__protocol, val| {
                            __protocol.write_map(
                                ::pilota::thrift::TType::Binary,
                                ::pilota::thrift::TType::I32,
                                &val,
                                |__protocol, key| {
                                    __protocol.write_faststr((key).clone())?;
                                    ::std::result::Result::Ok(())
                                },
                                |__protocol, val| {
                                    __protocol.write_i32(*val)?;
                                    ::std::result::Result::Ok(())
                                },
                            )?;
                            ::std::result::Result::Ok(())
                        },
                    )?;
                }
                if let Some(value) = self.f3.as_ref() {
                    __protocol.write_list_field(
                        32767,
                        ::pilota::thrift::TType::I64,
                        &value,
                        |__protocol, val| {
                            __protocol.write_i64(*val)?;
                            ::std::result::Result::Ok(())
                        },
                    )?;
                }
                for bytes in self._unknown_fields.list.iter() {
                    __protocol.write_bytes_without_len(bytes.clone());
                }
                __protocol.write_field_stop()?;
                __protocol.write_struct_end()?;
                ::std::result::Result::Ok(())
            }

            fn decode<T: ::pilota::thrift::TInputProtocol>(
                __protocol: &mut T,
            ) -> ::std::result::Result<Self, ::pilota::thrift::ThriftException> {
                #[allow(unused_imports)]
                use ::pilota::{thrift::TLengthProtocolExt, Buf};

                let mut var_1 = Some(::pilota::Bytes::from_static("bin".as_bytes()));
                let mut var_2 = None;
                let mut var_32767 = None;
                let mut _unknown_fields = ::pilota::LinkedBytes::new();

                let mut __pilota_decoding_field_id = None;

                __protocol.read_struct_begin()?;
                if let ::std::result::Result::Err(mut err) = (|| {
                    loop {
                        let mut __pilota_offset = 0;
                        let __pilota_begin_ptr = __protocol.buf().chunk().as_ptr();
                        let field_ident = __protocol.read_field_begin()?;
                        if field_ident.field_type == ::pilota::thrift::TType::Stop {
                            __pilota_offset += __protocol.field_stop_len();
                            break;
                        } else {
                            __pilota_offset +=
                                __protocol.field_begin_len(field_ident.field_type, field_ident.id);
                        }
                        __pilota_decoding_field_id = field_ident.id;
                        match field_ident.id {
                            Some(1)
                                if field_ident.field_type == ::pilota::thrift::TType::Binary =>
                            {
                                var_1 = Some(__protocol.read_bytes()?);
                            }
                            Some(2) if field_ident.field_type == ::pilota::thrift::TType::List => {
                                var_2 = Some(unsafe {
                                    let list_ident = __protocol.read_list_begin()?;
                                    let mut val: ::std::vec::Vec<
                                        ::pilota::AHashMap<::pilota::FastStr, i32>,
                                    > = ::std::vec::Vec::with_capacity(list_ident.size);
                                    for i in 0..list_ident.size {
                                        val.as_mut_ptr().offset(i as isize).write({
                                            let map_ident = __protocol.read_map_begin()?;
                                            let mut val =
                                                ::pilota::AHashMap::with_capacity(map_ident.size);
                                            for _ in 0..map_ident.size {
                                                val.insert(
                                                    __protocol.read_faststr()?,
                                                    __protocol.read_i32()?,
                                                );
                                            }
                                            __protocol.read_map_end()?;
                                            val
                                        });
                                    }
                                    val.set_len(list_ident.size);
                                    __protocol.read_list_end()?;
                                    val
                                });
                            }
                            Some(32767)
                                if field_ident.field_type == ::pilota::thrift::TType::List =>
                            {
                                var_32767 = Some(unsafe {
                                    let list_ident = __protocol.read_list_begin()?;
                                    let mut val: ::std::vec::Vec<i64> =
                                        ::std::vec::Vec::with_capacity(list_ident.size);
                                    for i in 0..list_ident.size {
                                        val.as_mut_ptr()
                                            .offset(i as isize)
                                            .write(__protocol.read_i64()?);
                                    }
                                    val.set_len(list_ident.size);
                                    __protocol.read_list_end()?;
                                    val
                                });
                            }
                            _ => {
                                __pilota_offset += __protocol.skip(field_ident.field_type)?;
                                _unknown_fields.push_back(
                                    __protocol
                                        .get_bytes(Some(__pilota_begin_ptr), __pilota_offset)?,
                                );
                            }
                        }

                        __protocol.read_field_end()?;
                        __pilota_offset += __protocol.field_end_len();
                    }
                    ::std::result::Result::Ok::<_, ::pilota::thrift::ThriftException>(())
                })() {
                    if let Some(field_id) = __pilota_decoding_field_id {
                        err.prepend_msg(&format!(
                            "decode struct `S0x14` field(#{}) failed, caused by: ",
                            field_id
                        ));
                    }
                    return ::std::result::Result::Err(err);
                };
                __protocol.read_struct_end()?;

                let data = Self {
                    f1: var_1,
                    f2: var_2,
                    f3: var_32767,
                    _unknown_fields,
                };
                ::std::result::Result::Ok(data)
            }

            fn decode_async<'a, T: ::pilota::thrift::TAsyncInputProtocol>(
                __protocol: &'a mut T,
            ) -> ::std::pin::Pin<
                ::std::boxed::Box<
                    dyn ::std::future::Future<
                            Output = ::std::result::Result<Self, ::pilota::thrift::ThriftException>,
                        > + Send
                        + 'a,
                >,
            > {
                ::std::boxed::Box::pin(async move {
                    let mut var_1 = Some(::pilota::Bytes::from_static("bin".as_bytes()));
                    let mut var_2 = None;
                    let mut var_32767 = None;

                    let mut __pilota_decoding_field_id = None;

                    __protocol.read_struct_begin().await?;
                    if let ::std::result::Result::Err(mut err) = async {
                        loop {
                            let field_ident = __protocol.read_field_begin().await?;
                            if field_ident.field_type == ::pilota::thrift::TType::Stop {
                                break;
                            } else {
                            }
                            __pilota_decoding_field_id = field_ident.id;
                            match field_ident.id {
                                Some(1)
                                    if field_ident.field_type
                                        == ::pilota::thrift::TType::Binary =>
                                {
                                    var_1 = Some(__protocol.read_bytes().await?);
                                }
                                Some(2)
                                    if field_ident.field_type == ::pilota::thrift::TType::List =>
                                {
                                    var_2 = Some({
                                        let list_ident = __protocol.read_list_begin().await?;
                                        let mut val =
                                            ::std::vec::Vec::with_capacity(list_ident.size);
                                        for _ in 0..list_ident.size {
                                            val.push({
                                                let map_ident = __protocol.read_map_begin().await?;
                                                let mut val = ::pilota::AHashMap::with_capacity(
                                                    map_ident.size,
                                                );
                                                for _ in 0..map_ident.size {
                                                    val.insert(
                                                        __protocol.read_faststr().await?,
                                                        __protocol.read_i32().await?,
                                                    );
                                                }
                                                __protocol.read_map_end().await?;
                                                val
                                            });
                                        }
                                        __protocol.read_list_end().await?;
                                        val
                                    });
                                }
                                Some(32767)
                                    if field_ident.field_type == ::pilota::thrift::TType::List =>
                                {
                                    var_32767 = Some({
                                        let list_ident = __protocol.read_list_begin().await?;
                                        let mut val =
                                            ::std::vec::Vec::with_capacity(list_ident.size);
                                        for _ in 0..list_ident.size {
                                            val.push(__protocol.read_i64().await?);
                                        }
                                        __protocol.read_list_end().await?;
                                        val
                                    });
                                }
                                _ => {
                                    __protocol.skip(field_ident.field_type).await?;
                                }
                            }

                            __protocol.read_field_end().await?;
                        }
                        ::std::result::Result::Ok::<_, ::pilota::thrift::ThriftException>(())
                    }
                    .await
                    {
                        if let Some(field_id) = __pilota_decoding_field_id {
                            err.prepend_msg(&format!(
                                "decode struct `S0x14` field(#{}) failed, caused by: ",
                                field_id
                            ));
                        }
                        return ::std::result::Result::Err(err);
                    };
                    __protocol.read_struct_end().await?;

                    let data = Self {
                        f1: var_1,
                        f2: var_2,
                        f3: var_32767,
                        _unknown_fields: ::pilota::LinkedBytes::new(),
                    };
                    ::std::result::Result::Ok(data)
                })
            }

            fn size<T: ::pilota::thrift::TLengthProtocol>(&self, __protocol: &mut T) -> usize {
                #[allow(unused_imports)]
                use ::pilota::thrift::TLengthProtocolExt;
                __protocol.struct_begin_len(&::pilota::thrift::TStructIdentifier { name: "S0x14" })
                    + self
                        .f1
                        .as_ref()
                        .map_or(0, |value| __protocol.bytes_field_len(Some(1), value))
                    + self.f2.as_ref().map_or(0, |value| {
                        __protocol.list_field_len(
                            Some(2),
                            ::pilota::thrift::TType::Map,
                            value,
                            |__protocol, el| {
                                __protocol.map_len(
                                    ::pilota::thrift::TType::Binary,
                                    ::pilota::thrift::TType::I32,
                                    el,
                                    |__protocol, key| __protocol.faststr_len(key),
                                    |__protocol, val| __protocol.i32_len(*val),
                                )
                            },
                        )
                    })
                    + self.f3.as_ref().map_or(0, |value| {
                        __protocol.list_field_len(
                            Some(32767),
                            ::pilota::thrift::TType::I64,
                            value,
                            |__protocol, el| __protocol.i64_len(*el),
                        )
                    })
                    + self._unknown_fields.size()
                    + __protocol.field_stop_len()
                    + __protocol.struct_end_len()
            }
        }
        #[derive(PartialOrd, Hash, Eq, Ord, Debug, Default, Clone, PartialEq)]
        pub struct S0x2 {
            pub f1: ::std::option::Option<::pilota::Bytes>,

            pub f2: ::std::vec::Vec<::std::sync::Arc<Leaf1>>,

            pub f3: ::std::option::Option<TdList>,
            pub _unknown_fields: ::pilota::LinkedBytes,
        }
        impl ::pilota::thrift::Message for S0x2 {
            fn encode<T: ::pilota::thrift::TOutputProtocol>(
                &self,
                __protocol: &mut T,
            ) -> ::std::result::Result<(), ::pilota::thrift::ThriftException> {
                #[allow(unused_imports)]
                use ::pilota::thrift::TOutputProtocolExt;
                let struct_ident = ::pilota::thrift::TStructIdentifier { name: "S0x2" };

                __protocol.write_struct_begin(&struct_ident)?;
                if let Some(value) = self.f1.as_ref() {
                    __protocol.write_bytes_field(1, (value).clone())?;
                }
                __protocol.write_list_field(
                    2,
                    ::pilota::thrift::TType::Struct,
                    &&self.f2,
                    |__protocol, val| {
                        __protocol.write_struct(val)?;
                        ::std::result::Result::Ok(())
                    },
                )?;
                if let Some(value) = self.f3.as_ref() {
                    __protocol.write_struct_field(32767, value, ::pilota::thrift::TType::List)?;
                }
                for bytes in self._unknown_fields.list.iter() {
                    __protocol.write_bytes_without_len(bytes.clone());
                }
                __protocol.write_field_stop()?;
                __protocol.write_struct_end()?;
                ::std::result::Result::Ok(())
            }

            fn decode<T: ::pilota::thrift::TInputProtocol>(
                __protocol: &mut T,
            ) -> ::std::result::Result<Self, ::pilota::thrift::ThriftException> {
                #[allow(unused_imports)]
                use ::pilota::{thrift::TLengthProtocolExt, Buf};

                let mut var_1 = None;
                let mut var_2 = None;
                let mut var_32767 = None;
                let mut _unknown_fields = ::pilota::LinkedBytes::new();

                let mut __pilota_decoding_field_id = None;

                __protocol.read_struct_begin()?;
                if let ::std::result::Result::Err(mut err) = (|| {
                    loop {
                        let mut __pilota_offset = 0;
                        let __pilota_begin_ptr = __protocol.buf().chunk().as_ptr();
                        let field_ident = __protocol.read_field_begin()?;
                        if field_ident.field_type == ::pilota::thrift::TType::Stop {
                            __pilota_offset += __protocol.field_stop_len();
                            break;
                        } else {
                            __pilota_offset +=
                                __protocol.field_begin_len(field_ident.field_type, field_ident.id);
                        }
                        __pilota_decoding_field_id = field_ident.id;
                        match field_ident.id {
                            Some(1)
                                if field_ident.field_type == ::pilota::thrift::TType::Binary =>
                            {
                                var_1 = Some(__protocol.read_bytes()?);
                            }
                            Some(2) if field_ident.field_type == ::pilota::thrift::TType::List => {
                                var_2 = Some(unsafe {
                                    let list_ident = __protocol.read_list_begin()?;
                                    let mut val: ::std::vec::Vec<::std::sync::Arc<Leaf1>> =
                                        ::std::vec::Vec::with_capacity(list_ident.size);
                                    for i in 0..list_ident.size {
                                        val.as_mut_ptr().offset(i as isize).write(
                                            ::std::sync::Arc::new(
                                                ::pilota::thrift::Message::decode(__protocol)?,
                                            ),
                                        );
                                    }
                                    val.set_len(list_ident.size);
                                    __protocol.read_list_end()?;
                                    val
                                });
                            }
                            Some(32767)
                                if field_ident.field_type == ::pilota::thrift::TType::List =>
                            {
                                var_32767 = Some(::pilota::thrift::Message::decode(__protocol)?);
                            }
                            _ => {
                                __pilota_offset += __protocol.skip(field_ident.field_type)?;
                                _unknown_fields.push_back(
                                    __protocol
                                        .get_bytes(Some(__pilota_begin_ptr), __pilota_offset)?,
                                );
                            }
                        }

                        __protocol.read_field_end()?;
                        __pilota_offset += __protocol.field_end_len();
                    }
                    ::std::result::Result::Ok::<_, ::pilota::thrift::ThriftException>(())
                })() {
                    if let Some(field_id) = __pilota_decoding_field_id {
                        err.prepend_msg(&format!(
                            "decode struct `S0x2` field(#{}) failed, caused by: ",
                            field_id
                        ));
                    }
                    return ::std::result::Result::Err(err);
                };
                __protocol.read_struct_end()?;

                let Some(var_2) = var_2 else {
                    return ::std::result::Result::Err(::pilota::thrift::new_protocol_exception(
                        ::pilota::thrift::ProtocolExceptionKind::InvalidData,
                        "field f2 is required".to_string(),
                    ));
                };

                let data = Self {
                    f1: var_1,
                    f2: var_2,
                    f3: var_32767,
                    _unknown_fields,
                };
                ::std::result::Result::Ok(data)
            }

            fn decode_async<'a, T: ::pilota::thrift::TAsyncInputProtocol>(
                __protocol: &'a mut T,
            ) -> ::std::pin::Pin<
                ::std::boxed::Box<
                    dyn ::std::future::Future<
                            Output = ::std::result::Result<Self, ::pilota::thrift::ThriftException>,
                        > + Send
                        + 'a,
                >,
            > {
                ::std::boxed::Box::pin(async move {
                    let mut var_1 = None;
                    let mut var_2 = None;
                    let mut var_32767 = None;

                    let mut __pilota_decoding_field_id = None;

                    __protocol.read_struct_begin().await?;
                    if let ::std::result::Result::Err(mut err) = async {
                        loop {
                            let field_ident = __protocol.read_field_begin().await?;
                            if field_ident.field_type == ::pilota::thrift::TType::Stop {
                                break;
                            } else {
                            }
                            __pilota_decoding_field_id = field_ident.id;
                            match field_ident.id {
                                Some(1)
                                    if field_ident.field_type
                                        == ::pilota::thrift::TType::Binary =>
                                {
                                    var_1 = Some(__protocol.read_bytes().await?);
                                }
                                Some(2)
                                    if field_ident.field_type == ::pilota::thrift::TType::List =>
                                {
                                    var_2 = Some({
                                        let list_ident = __protocol.read_list_begin().await?;
                                        let mut val =
                                            ::std::vec::Vec::with_capacity(list_ident.size);
                                        for _ in 0..list_ident.size {
                                            val.push(::std::sync::Arc::new(
                                                <Leaf1 as ::pilota::thrift::Message>::decode_async(
                                                    __protocol,
                                                )
                                                .await?,
                                            ));
                                        }
                                        __protocol.read_list_end().await?;
                                        val
                                    });
                                }
                                Some(32767)
                                    if field_ident.field_type == ::pilota::thrift::TType::List =>
                                {
                                    var_32767 = Some(
                                        <TdList as ::pilota::thrift::Message>::decode_async(
                                            __protocol,
                                        )
                                        .await?,
                                    );
                                }
                                _ => {
                                    __protocol.skip(field_ident.field_type).await?;
                                }
                            }

                            __protocol.read_field_end().await?;
                        }
                        ::std::result::Result::Ok::<_, ::pilota::thrift::ThriftException>(())
                    }
                    .await
                    {
                        if let Some(field_id) = __pilota_decoding_field_id {
                            err.prepend_msg(&format!(
                                "decode struct `S0x2` field(#{}) failed, caused by: ",
                                field_id
                            ));
                        }
                        return ::std::result::Result::Err(err);
                    };
                    __protocol.read_struct_end().await?;

                    let Some(var_2) = var_2 else {
                        return ::std::result::Result::Err(
                            ::pilota::thrift::new_protocol_exception(
                                ::pilota::thrift::ProtocolExceptionKind::InvalidData,
                                "field f2 is required".to_string(),
                            ),
                        );
                    };

                    let data = Self {
                        f1: var_1,
                        f2: var_2,
                        f3: var_32767,
                        _unknown_fields: ::pilota::LinkedBytes::new(),
                    };
                    ::std::result::Result::Ok(data)
                })
            }

            fn size<T: ::pilota::thrift::TLengthProtocol>(&self, __protocol: &mut T) -> usize {
                #[allow(unused_imports)]
                use ::pilota::thrift::TLengthProtocolExt;
                __protocol.struct_begin_len(&::pilota::thrift::TStructIdentifier { name: "S0x2" })
                    + self
                        .f1
                        .as_ref()
                        .map_or(0, |value| __protocol.bytes_field_len(Some(1), value))
                    + __protocol.list_field_len(
                        Some(2),
                        ::pilota::thrift::TType::Struct,
                        &self.f2,
                        |__protocol, el| __protocol.struct_len(el),
                    )
                    + self
                        .f3
                        .as_ref()
                        .map_or(0, |value| __protocol.struct_field_len(Some(32767), value))
                    + self._unknown_fields.size()
                    + __protocol.field_stop_len()
                    + __protocol.struct_end_len()
            }
        }
        #[derive(PartialOrd, Hash, Eq, Ord, Debug, Default, Clone, PartialEq)]
        pub struct TdLeaf(pub Leaf1);

        impl ::std::ops::Deref for TdLeaf {
            type Target = Leaf1;

            fn deref(&self) -> &Self::Target {
                &self.0
            }
        }

        impl From<Leaf1> for TdLeaf {
            fn from(v: Leaf1) -> Self {
                Self(v)
            }
        }

        impl ::pilota::thrift::Message for TdLeaf {
            fn encode<T: ::pilota::thrift::TOutputProtocol>(
                &self,
                __protocol: &mut T,
            ) -> ::std::result::Result<(), ::pilota::thrift::ThriftException> {
                #[allow(unused_imports)]
                use ::pilota::thrift::TOutputProtocolExt;
                __protocol.write_struct((&**self))?;
                ::std::result::Result::Ok(())
            }

            fn decode<T: ::pilota::thrift::TInputProtocol>(
                __protocol: &mut T,
            ) -> ::std::result::Result<Self, ::pilota::thrift::ThriftException> {
                #[allow(unused_imports)]
                use ::pilota::{thrift::TLengthProtocolExt, Buf};
                ::std::result::Result::Ok(TdLeaf(::pilota::thrift::Message::decode(__protocol)?))
            }

            fn decode_async<'a, T: ::pilota::thrift::TAsyncInputProtocol>(
                __protocol: &'a mut T,
            ) -> ::std::pin::Pin<
                ::std::boxed::Box<
                    dyn ::std::future::Future<
                            Output = ::std::result::Result<Self, ::pilota::thrift::ThriftException>,
                        > + Send
                        + 'a,
                >,
            > {
                ::std::boxed::Box::pin(async move {
                    ::std::result::Result::Ok(TdLeaf(
                        <Leaf1 as ::pilota::thrift::Message>::decode_async(__protocol).await?,
                    ))
                })
            }

            fn size<T: ::pilota::thrift::TLengthProtocol>(&self, __protocol: &mut T) -> usize {
                #[allow(unused_imports)]
                use ::pilota::thrift::TLengthProtocolExt;
                __protocol.struct_len(&**self)
            }
        }
        impl ::std::default::Default for Svc0MdResultRecv {
            fn default() -> Self {
                Svc0MdResultRecv::Ok(::std::default::Default::default())
            }
        }
        #[derive(PartialOrd, Hash, Eq, Ord, Debug, Clone, PartialEq)]
        pub enum Svc0MdResultRecv {
            Ok(()),
        }

        impl ::pilota::thrift::Message for Svc0MdResultRecv {
            fn encode<T: ::pilota::thrift::TOutputProtocol>(
                &self,
                __protocol: &mut T,
            ) -> ::std::result::Result<(), ::pilota::thrift::ThriftException> {
                #[allow(unused_imports)]
                use ::pilota::thrift::TOutputProtocolExt;
                __protocol.write_struct_begin(&::pilota::thrift::TStructIdentifier {
                    name: "Svc0MdResultRecv",
                })?;
                match self {
                    Svc0MdResultRecv::Ok(value) => {}
                }
                __protocol.write_field_stop()?;
                __protocol.write_struct_end()?;
                ::std::result::Result::Ok(())
            }

            fn decode<T: ::pilota::thrift::TInputProtocol>(
                __protocol: &mut T,
            ) -> ::std::result::Result<Self, ::pilota::thrift::ThriftException> {
                #[allow(unused_imports)]
                use ::pilota::{thrift::TLengthProtocolExt, Buf};
                let mut ret = None;
                __protocol.read_struct_begin()?;
                loop {
                    let field_ident = __protocol.read_field_begin()?;
                    if field_ident.field_type == ::pilota::thrift::TType::Stop {
                        __protocol.field_stop_len();
                        break;
                    } else {
                        __protocol.field_begin_len(field_ident.field_type, field_ident.id);
                    }
                    match field_ident.id {
                        _ => {
                            __protocol.skip(field_ident.field_type)?;
                        }
                    }
                }
                __protocol.read_field_end()?;
                __protocol.read_struct_end()?;
                if let Some(ret) = ret {
                    ::std::result::Result::Ok(ret)
                } else {
                    ::std::result::Result::Ok(Svc0MdResultRecv::Ok(()))
                }
            }

            fn decode_async<'a, T: ::pilota::thrift::TAsyncInputProtocol>(
                __protocol: &'a mut T,
            ) -> ::std::pin::Pin<
                ::std::boxed::Box<
                    dyn ::std::future::Future<
                            Output = ::std::result::Result<Self, ::pilota::thrift::ThriftException>,
                        > + Send
                        + 'a,
                >,
            > {
                ::std::boxed::Box::pin(async move {
                    let mut ret = None;
                    __protocol.read_struct_begin().await?;
                    loop {
                        let field_ident = __protocol.read_field_begin().await?;
                        if field_ident.field_type == ::pilota::thrift::TType::Stop {
                            break;
                        } else {
                        }
                        match field_ident.id {
                            _ => {
                                __protocol.skip(field_ident.field_type).await?;
                            }
                        }
                    }
                    __protocol.read_field_end().await?;
                    __protocol.read_struct_end().await?;
                    if let Some(ret) = ret {
                        ::std::result::Result::Ok(ret)
                    } else {
                        ::std::result::Result::Ok(Svc0MdResultRecv::Ok(()))
                    }
                })
            }

            fn size<T: ::pilota::thrift::TLengthProtocol>(&self, __protocol: &mut T) -> usize {
                #[allow(unused_imports)]
                use ::pilota::thrift::TLengthProtocolExt;
                __protocol.struct_begin_len(&::pilota::thrift::TStructIdentifier {
                    name: "Svc0MdResultRecv",
                }) + match self {
                    Svc0MdResultRecv::Ok(value) => 0,
                } + __protocol.field_stop_len()
                    + __protocol.struct_end_len()
            }
        }
    }
}
